// C06/C07 (partial): implicit defaults per action; default action and value-count inference
// in Arg::_build.
use crate::builder::ValueRange;
use crate::{Arg, ArgAction};
use std::ffi::OsStr;

fn any_action() -> (ArgAction, u8) {
    let d: u8 = kani::any();
    kani::assume(d < 9);
    let a = match d {
        0 => ArgAction::Set,
        1 => ArgAction::Append,
        2 => ArgAction::SetTrue,
        3 => ArgAction::SetFalse,
        4 => ArgAction::Count,
        5 => ArgAction::Help,
        6 => ArgAction::HelpShort,
        7 => ArgAction::HelpLong,
        _ => ArgAction::Version,
    };
    // exhaustive: a new action breaks the build of this harness
    match a {
        ArgAction::Set
        | ArgAction::Append
        | ArgAction::SetTrue
        | ArgAction::SetFalse
        | ArgAction::Count
        | ArgAction::Help
        | ArgAction::HelpShort
        | ArgAction::HelpLong
        | ArgAction::Version => {}
    }
    (a, d)
}

/// documented table: (default value, default missing value, takes values)
fn table(d: u8) -> (Option<&'static str>, Option<&'static str>, bool) {
    match d {
        0 | 1 => (None, None, true),
        2 => (Some("false"), Some("true"), false),
        3 => (Some("true"), Some("false"), false),
        4 => (Some("0"), None, false),
        _ => (None, None, false),
    }
}

fn os_eq(a: Option<&OsStr>, b: Option<&str>) -> bool {
    match (a, b) {
        (None, None) => true,
        (Some(x), Some(y)) => {
            let x = x.as_encoded_bytes();
            let y = y.as_bytes();
            if x.len() != y.len() {
                return false;
            }
            let mut i = 0;
            let mut ok = true;
            while i < x.len() {
                if x[i] != y[i] {
                    ok = false;
                }
                i += 1;
            }
            ok
        }
        _ => false,
    }
}

#[kani::proof]
#[kani::unwind(7)]
fn action_tables() {
    let (a, d) = any_action();
    let (dv, dmv, takes) = table(d);
    assert!(a.takes_values() == takes);
    let n = a.default_num_args();
    assert!(n.min_values() == if takes { 1 } else { 0 });
    assert!(n.max_values() == if takes { 1 } else { 0 });
    assert!(os_eq(a.default_value(), dv));
    assert!(os_eq(a.default_missing_value(), dmv));
    kani::cover!(d == 4, "count");
    kani::cover!(d == 3, "set-false");
    kani::cover!(d == 8, "version");
}

/// After Arg::_build() on an arg with an explicit action and nothing else, the arg carries
/// exactly the action's implicit defaults and value count.
#[kani::proof]
#[kani::unwind(7)]
fn action_defaults_after_build() {
    let (a, d) = any_action();
    let (dv, dmv, takes) = table(d);
    let mut arg = Arg::new("x").long("x").action(a);
    arg._build();
    let nv = arg.get_num_args().unwrap();
    assert!(nv.min_values() == if takes { 1 } else { 0 });
    assert!(nv.max_values() == if takes { 1 } else { 0 });
    let defs = arg.get_default_values();
    match dv {
        Some(s) => {
            assert!(defs.len() == 1);
            assert!(os_eq(Some(defs[0].as_os_str()), Some(s)));
        }
        None => assert!(defs.is_empty()),
    }
    match dmv {
        Some(s) => {
            assert!(arg.default_missing_vals.len() == 1);
            assert!(os_eq(Some(arg.default_missing_vals[0].as_os_str()), Some(s)));
        }
        None => assert!(arg.default_missing_vals.is_empty()),
    }
    assert!(arg.is_takes_value_set() == takes);
    kani::cover!(d == 2, "set-true");
    kani::cover!(d == 4, "count");
    kani::cover!(d == 0, "set");
    std::mem::forget(arg);
}

/// Default action / value-count inference for args WITHOUT an explicit action.
#[kani::proof]
#[kani::unwind(7)]
fn arg_build_inference() {
    let positional: bool = kani::any();
    let explicit_range: bool = kani::any();
    let lo: usize = kani::any();
    let hi: usize = kani::any();
    kani::assume(lo <= hi);
    let names: u8 = kani::any();
    kani::assume(names <= 2);

    let mut arg = Arg::new("x");
    if !positional {
        arg = arg.long("x");
    }
    if explicit_range {
        arg = arg.num_args(lo..=hi);
    }
    if names == 1 {
        arg = arg.value_name("A");
    } else if names == 2 {
        arg = arg.value_names(["A", "B"]);
    }
    arg._build();

    // action
    let flag_like = explicit_range && lo == 0 && hi == 0;
    let unbounded = explicit_range && hi == usize::MAX;
    let exp_action: u8 = if flag_like {
        2 // SetTrue
    } else if positional && unbounded {
        1 // Append
    } else {
        0 // Set
    };
    let got_action: u8 = match arg.get_action() {
        ArgAction::Set => 0,
        ArgAction::Append => 1,
        ArgAction::SetTrue => 2,
        _ => 9,
    };
    assert!(got_action == exp_action);

    // value count: explicit range, else number of value names when >= 2, else the action's default
    let nv = arg.get_num_args().unwrap();
    if explicit_range {
        assert!(nv.min_values() == lo && nv.max_values() == hi);
    } else if names == 2 {
        assert!(nv.min_values() == 2 && nv.max_values() == 2);
    } else {
        assert!(nv.min_values() == 1 && nv.max_values() == 1);
    }
    // an inferred flag carries the flag defaults
    if flag_like {
        assert!(arg.get_default_values().len() == 1);
        assert!(os_eq(Some(arg.get_default_values()[0].as_os_str()), Some("false")));
        assert!(arg.default_missing_vals.len() == 1);
    } else {
        assert!(arg.get_default_values().is_empty());
        assert!(arg.default_missing_vals.is_empty());
    }
    kani::cover!(exp_action == 1, "append inferred for unbounded positional");
    kani::cover!(exp_action == 2, "set-true inferred for num_args(0)");
    kani::cover!(!explicit_range && names == 2, "count from value names");
    kani::cover!(!positional && unbounded, "unbounded option stays Set");
    std::mem::forget(arg);
}

#[kani::proof]
#[kani::unwind(7)]
fn twin_c07_must_fail() {
    let (a, _) = any_action();
    let mut arg = Arg::new("x").long("x").action(a);
    arg._build();
    std::mem::forget(arg);
    assert!(false, "twin: reachable end of harness");
}
