// C20 (partial): width accounting and word splitting of the wrapping code, all short ASCII strings.
// Feature `unicode` is off: every char has width 1.
use crate::output::textwrap::core::display_width;
use crate::output::textwrap::word_separators::find_words_ascii_space;

fn ascii<const L: usize>() -> [u8; L] {
    let b: [u8; L] = kani::any();
    let mut i = 0;
    while i < L {
        kani::assume(b[i] < 0x80);
        i += 1;
    }
    b
}

fn as_str<const L: usize>(b: &[u8; L]) -> &str {
    // all bytes < 0x80 (assumed by `ascii`), so this never fails; clap_builder forbids unsafe code
    match std::str::from_utf8(b) {
        Ok(s) => s,
        Err(_) => {
            kani::assume(false);
            ""
        }
    }
}

/// Reference in "skip" form, stated at the level of the property: an ANSI escape sequence runs from
/// ESC (0x1b) through the next 'm' (inclusive) or to the end of the text and takes no columns; every
/// other character - including a tab or any other control character - counts (1 with feature `unicode`
/// off), so text after it is never hidden from the width accounting.
fn ref_width(b: &[u8]) -> usize {
    let mut w = 0;
    let mut i = 0;
    while i < b.len() {
        let c = b[i];
        if c == 0x1b {
            // skip to just past the next 'm'
            let mut j = i + 1;
            while j < b.len() && b[j] != b'm' {
                j += 1;
            }
            i = if j < b.len() { j + 1 } else { j };
        } else {
            w += 1;
            i += 1;
        }
    }
    w
}

fn display_width_h<const L: usize>() {
    let b = ascii::<L>();
    let w = display_width(as_str(&b));
    assert!(w == ref_width(&b));
    assert!(w <= L);
    kani::cover!(L < 3 || (w == L - 3 && b[0] == 0x1b), "escape sequence counted as zero width");
    kani::cover!(w == L, "plain text");
    kani::cover!(L < 1 || w == 0, "only control sequence");
}

/// The yielded slices are non-empty consecutive pieces that concatenate to the input, and every
/// cut is at a space -> non-space transition (words keep their trailing spaces; nothing else is
/// a break opportunity).
fn find_words_h<const L: usize>() {
    let b = ascii::<L>();
    let s = as_str(&b);
    let base = s.as_ptr() as usize;
    let mut pos = 0usize;
    let mut n = 0usize;
    for w in find_words_ascii_space(s) {
        assert!(!w.is_empty());
        // consecutive piece of the input
        assert!(w.as_ptr() as usize == base + pos);
        if pos > 0 {
            assert!(b[pos - 1] == b' ' && b[pos] != b' ');
        }
        pos += w.len();
        assert!(pos <= L);
        // no break opportunity inside the piece was skipped
        let bytes = w.as_bytes();
        let mut i = 1;
        while i < bytes.len() {
            assert!(!(bytes[i - 1] == b' ' && bytes[i] != b' '));
            i += 1;
        }
        n += 1;
    }
    assert!(pos == L);
    kani::cover!(n == 1, "single word");
    kani::cover!(L < 3 || n == 2, "two words");
    kani::cover!(L < 2 || (n == 1 && b[0] == b' '), "leading spaces stay attached");
}

macro_rules! inst {
    ($name:ident, $unwind:expr, $f:ident, $l:expr) => {
        #[kani::proof]
        #[kani::unwind($unwind)]
        fn $name() {
            $f::<$l>()
        }
    };
}

inst!(display_width_1, 4, display_width_h, 1);
inst!(display_width_2, 5, display_width_h, 2);
inst!(display_width_3, 6, display_width_h, 3);
inst!(display_width_4, 7, display_width_h, 4);
inst!(display_width_5, 8, display_width_h, 5);
inst!(display_width_6, 9, display_width_h, 6);
inst!(find_words_1, 4, find_words_h, 1);
inst!(find_words_2, 5, find_words_h, 2);
inst!(find_words_3, 6, find_words_h, 3);
inst!(find_words_4, 7, find_words_h, 4);
inst!(find_words_5, 8, find_words_h, 5);

#[kani::proof]
#[kani::unwind(6)]
fn twin_c20_must_fail() {
    let b = ascii::<3>();
    let _ = display_width(as_str(&b));
    kani::assume(b[0] == b' ');
    assert!(false, "twin: reachable end of harness");
}
