// Included into clap_builder (src/lib.rs, `mod verif_harness`) under `--cfg clap_verif`.
// One sub-module per file so that harness paths are verif_harness::<file>::<harness>.

#[cfg(kani)]
#[allow(dead_code, unused_imports, unused_qualifications, clippy::all)]
mod c02 {
    include!(concat!(env!("CLAP_VERIF_DIR"), "/c02.rs"));
}
#[cfg(kani)]
#[allow(dead_code, unused_imports, unused_qualifications, clippy::all)]
mod c06 {
    include!(concat!(env!("CLAP_VERIF_DIR"), "/c06.rs"));
}
#[cfg(kani)]
#[allow(dead_code, unused_imports, unused_qualifications, clippy::all)]
mod c07 {
    include!(concat!(env!("CLAP_VERIF_DIR"), "/c07.rs"));
}
#[cfg(kani)]
#[allow(dead_code, unused_imports, unused_qualifications, clippy::all)]
mod c10 {
    include!(concat!(env!("CLAP_VERIF_DIR"), "/c10.rs"));
}
#[cfg(kani)]
#[allow(dead_code, unused_imports, unused_qualifications, clippy::all)]
mod c04 {
    include!(concat!(env!("CLAP_VERIF_DIR"), "/c04.rs"));
}
#[cfg(kani)]
#[allow(dead_code, unused_imports, unused_qualifications, clippy::all)]
mod c20 {
    include!(concat!(env!("CLAP_VERIF_DIR"), "/c20.rs"));
}
#[cfg(all(test, not(kani)))]
#[allow(dead_code, unused_imports, unused_qualifications, clippy::all)]
mod native_c12 {
    include!(concat!(env!("CLAP_VERIF_DIR"), "/native_c12.rs"));
}
#[cfg(all(test, not(kani)))]
#[allow(dead_code, unused_imports, unused_qualifications, clippy::all)]
mod native_spec {
    include!(concat!(env!("CLAP_VERIF_DIR"), "/native_spec.rs"));
}
