// C02 (partial): value-count boundary (ValueRange) and occurrence grouping (MatchedArg).
use crate::builder::ValueRange;
use crate::parser::MatchedArg;
use crate::util::AnyValue;
use std::ffi::OsString;

#[kani::proof]
fn range_predicates() {
    let lo: usize = kani::any();
    let hi: usize = kani::any();
    kani::assume(lo <= hi);
    let r = ValueRange::new(lo..=hi);
    let cur: usize = kani::any();
    assert!(r.min_values() == lo);
    assert!(r.max_values() == hi);
    // the pending-values buffer takes another value iff it holds fewer than the maximum
    assert!(r.accepts_more(cur) == (cur < hi));
    assert!(r.takes_values() == (hi > 0));
    assert!(r.is_unbounded() == (hi == usize::MAX));
    assert!(r.is_fixed() == (lo == hi));
    assert!(r.is_multiple() == (hi > 1 || lo != hi));
    match r.num_values() {
        Some(n) => assert!(lo == hi && n == lo),
        None => assert!(lo != hi),
    }
    kani::cover!(r.accepts_more(cur) && cur + 1 == hi, "last slot");
    kani::cover!(!r.accepts_more(cur) && cur == hi, "exactly full");
    kani::cover!(hi == usize::MAX, "unbounded");
    kani::cover!(lo == 0 && hi == 0, "flag");
}

#[kani::proof]
fn range_from_impls() {
    let a: usize = kani::any();
    let b: usize = kani::any();
    let which: u8 = kani::any();
    kani::assume(which < 6);
    let (r, lo, hi) = match which {
        0 => (ValueRange::from(a), a, a),
        1 => {
            // `a..b` is the interval [a, b-1]; an empty `a..b` is not a valid value count
            kani::assume(a < b);
            (ValueRange::from(a..b), a, b - 1)
        }
        2 => {
            kani::assume(a <= b);
            (ValueRange::from(a..=b), a, b)
        }
        3 => (ValueRange::from(a..), a, usize::MAX),
        4 => (ValueRange::from(..b), 0, if b == 0 { 0 } else { b - 1 }),
        _ => (ValueRange::from(..=b), 0, b),
    };
    assert!(r.min_values() == lo);
    assert!(r.max_values() == hi);
    let full = ValueRange::from(..);
    assert!(full.min_values() == 0 && full.max_values() == usize::MAX);
    assert!(ValueRange::EMPTY.min_values() == 0 && ValueRange::EMPTY.max_values() == 0);
    assert!(ValueRange::SINGLE.min_values() == 1 && ValueRange::SINGLE.max_values() == 1);
    assert!(ValueRange::default() == ValueRange::SINGLE);
    kani::cover!(which == 1 && b == a + 1, "a..a+1 is exactly a");
    kani::cover!(which == 4 && b == 0, "..0");
    kani::cover!(which == 5, "..=b");
}

#[kani::proof]
fn twin_c02_range_must_fail() {
    let lo: usize = kani::any();
    let hi: usize = kani::any();
    kani::assume(lo <= hi);
    let r = ValueRange::new(lo..=hi);
    let _ = r.accepts_more(kani::any());
    assert!(false, "twin: reachable end of harness");
}

/// K symbolic grouping operations against a model (sizes per group): nothing lost,
/// duplicated or regrouped.  Values are identified by their raw byte length (1, 2, 3, ... in
/// push order).
fn grouping<const K: usize>() {
    let mut m = MatchedArg::new_group();
    m.new_val_group(); // the parser always opens a group before the first value
    let mut sizes = [0usize; 5];
    let mut groups = 1usize;
    let mut total = 0usize;
    let mut k = 0;
    while k < K {
        let new_group: bool = kani::any();
        if new_group {
            m.new_val_group();
            groups += 1;
        } else {
            total += 1;
            sizes[groups - 1] += 1;
            let raw = if total == 1 { "a" } else if total == 2 { "bb" } else if total == 3 { "ccc" } else { "dddd" };
            m.append_val(AnyValue::new(total as u8), OsString::from(raw));
        }
        k += 1;
    }
    assert!(m.num_vals() == total);
    assert!(m.num_vals_last_group() == sizes[groups - 1]);
    assert!(m.vals().len() == groups);
    assert!(m.raw_vals().len() == groups);
    // first group (the one the parser opened) kept exactly its own values
    assert!(m.vals().next().map(|g| g.len()) == Some(sizes[0]));
    assert!(m.raw_vals().next().map(|g| g.len()) == Some(sizes[0]));
    kani::cover!(groups == K + 1, "only group openings");
    kani::cover!(total == K, "only values");
    kani::cover!(K < 2 || (groups == 2 && sizes[0] == 1), "a value, then a group boundary");
    std::mem::forget(m);
}

#[kani::proof]
#[kani::unwind(6)]
fn matched_grouping_2() {
    grouping::<2>()
}
#[kani::proof]
#[kani::unwind(7)]
fn matched_grouping_3() {
    grouping::<3>()
}
#[kani::proof]
#[kani::unwind(8)]
fn matched_grouping_4() {
    grouping::<4>()
}

/// push_index: indices come back in push order, each exactly once.
#[kani::proof]
#[kani::unwind(6)]
fn matched_indices() {
    let mut m = MatchedArg::new_group();
    let a: usize = kani::any();
    let b: usize = kani::any();
    let c: usize = kani::any();
    let n: u8 = kani::any();
    kani::assume(n <= 3);
    if n >= 1 {
        m.push_index(a);
    }
    if n >= 2 {
        m.push_index(b);
    }
    if n >= 3 {
        m.push_index(c);
    }
    let exp = [a, b, c];
    let mut q = 0usize;
    for ix in m.indices() {
        assert!(ix == exp[q]);
        q += 1;
    }
    assert!(q == n as usize);
    assert!(m.get_index(n as usize).is_none());
    if n >= 1 {
        assert!(m.get_index(0) == Some(a));
    }
    kani::cover!(n == 3, "three indices");
    kani::cover!(n == 0, "none");
    std::mem::forget(m);
}
