// C06 (partial) + C03 (thin): source lattice, "presence means explicit source only".
use crate::builder::ArgPredicate;
use crate::parser::MatchedArg;
use crate::parser::ValueSource;

fn any_source() -> (ValueSource, u8) {
    let d: u8 = kani::any();
    kani::assume(d < 3);
    (
        match d {
            0 => ValueSource::DefaultValue,
            1 => ValueSource::EnvVariable,
            _ => ValueSource::CommandLine,
        },
        d,
    )
}

#[kani::proof]
fn source_order() {
    let (a, ra) = any_source();
    let (b, rb) = any_source();
    // DefaultValue < EnvVariable < CommandLine
    assert!((a < b) == (ra < rb));
    assert!((a == b) == (ra == rb));
    assert!(a.max(b) == if ra >= rb { a } else { b });
    assert!(a.is_explicit() == (ra != 0));
    kani::cover!(a < b, "ordered pair");
}

/// After any sequence of <= 3 set_source calls the strongest source is reported, and
/// check_explicit(IsPresent) is true iff that source is not DefaultValue.
#[kani::proof]
fn presence_explicit() {
    let mut m = MatchedArg::new_group();
    assert!(m.source().is_none());
    // never-sourced entries (groups before any member is recorded) count as present
    assert!(m.check_explicit(&ArgPredicate::IsPresent));
    let n: u8 = kani::any();
    kani::assume(n >= 1 && n <= 3);
    let mut best = 0u8;
    let mut i = 0u8;
    while i < 3 {
        if i < n {
            let (s, r) = any_source();
            m.set_source(s);
            if r > best {
                best = r;
            }
        }
        i += 1;
    }
    let got = m.source().unwrap();
    let got_rank = match got {
        ValueSource::DefaultValue => 0,
        ValueSource::EnvVariable => 1,
        ValueSource::CommandLine => 2,
    };
    assert!(got_rank == best);
    assert!(m.check_explicit(&ArgPredicate::IsPresent) == (best != 0));
    kani::cover!(best == 0, "defaults only: not present");
    kani::cover!(best == 1 && n == 3, "env beats default");
    kani::cover!(best == 2, "command line");
    std::mem::forget(m);
}

#[kani::proof]
fn twin_c06_must_fail() {
    let mut m = MatchedArg::new_group();
    let (s, _) = any_source();
    m.set_source(s);
    let _ = m.check_explicit(&ArgPredicate::IsPresent);
    std::mem::forget(m);
    assert!(false, "twin: reachable end of harness");
}
