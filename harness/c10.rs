// C10: kind -> stream -> exit code, for EVERY ErrorKind.
use crate::error::ErrorKind;

fn any_kind() -> ErrorKind {
    let d: u8 = kani::any();
    kani::assume(d < 18);
    let k = match d {
        0 => ErrorKind::InvalidValue,
        1 => ErrorKind::UnknownArgument,
        2 => ErrorKind::InvalidSubcommand,
        3 => ErrorKind::NoEquals,
        4 => ErrorKind::ValueValidation,
        5 => ErrorKind::TooManyValues,
        6 => ErrorKind::TooFewValues,
        7 => ErrorKind::WrongNumberOfValues,
        8 => ErrorKind::ArgumentConflict,
        9 => ErrorKind::MissingRequiredArgument,
        10 => ErrorKind::MissingSubcommand,
        11 => ErrorKind::InvalidUtf8,
        12 => ErrorKind::DisplayHelp,
        13 => ErrorKind::DisplayHelpOnMissingArgumentOrSubcommand,
        14 => ErrorKind::DisplayVersion,
        15 => ErrorKind::Io,
        _ => ErrorKind::Format,
    };
    // exhaustive: a new variant breaks the build of this harness instead of escaping it
    match k {
        ErrorKind::InvalidValue
        | ErrorKind::UnknownArgument
        | ErrorKind::InvalidSubcommand
        | ErrorKind::NoEquals
        | ErrorKind::ValueValidation
        | ErrorKind::TooManyValues
        | ErrorKind::TooFewValues
        | ErrorKind::WrongNumberOfValues
        | ErrorKind::ArgumentConflict
        | ErrorKind::MissingRequiredArgument
        | ErrorKind::MissingSubcommand
        | ErrorKind::InvalidUtf8
        | ErrorKind::DisplayHelp
        | ErrorKind::DisplayHelpOnMissingArgumentOrSubcommand
        | ErrorKind::DisplayVersion
        | ErrorKind::Io
        | ErrorKind::Format => {}
    }
    k
}

fn is_informational(k: ErrorKind) -> bool {
    matches!(k, ErrorKind::DisplayHelp | ErrorKind::DisplayVersion)
}

#[kani::proof]
#[kani::unwind(4)]
fn exit_contract() {
    let k = any_kind();
    let e = crate::Error::new(k);
    assert!(e.kind() == k);
    let info = is_informational(k);
    assert!(e.use_stderr() == !info);
    assert!(e.exit_code() == if info { 0 } else { 2 });
    kani::cover!(info, "help/version");
    kani::cover!(!info, "usage error");
    kani::cover!(k == ErrorKind::DisplayHelpOnMissingArgumentOrSubcommand, "help-on-missing is an error");
    std::mem::forget(e);
}

/// Same through `Error::raw` (the public constructor for user-made errors), message stubbed away.
#[kani::proof]
#[kani::unwind(4)]
fn exit_contract_raw() {
    let k = any_kind();
    let e = crate::Error::new(k).set_message(String::new());
    let info = is_informational(k);
    assert!(e.kind() == k);
    assert!(e.use_stderr() == !info);
    assert!(e.exit_code() == if info { 0 } else { 2 });
    kani::cover!(info, "help/version");
    kani::cover!(!info, "usage error");
    std::mem::forget(e);
}

#[kani::proof]
#[kani::unwind(4)]
fn twin_c10_must_fail() {
    let k = any_kind();
    let e = crate::Error::new(k);
    let _ = e.exit_code();
    std::mem::forget(e);
    assert!(false, "twin: reachable end of harness");
}
