// Native replay family for C12 (Engine B): realise an SMT model of the help-column arithmetic
// against the real crate.  Run as a #[test] inside clap_builder (cfg clap_verif), so it can use
// crate-private functions (display_width, is_takes_value_set).  Prints
//   C12-REPLAY MATCH member=<name>        a family member whose measured properties equal the model
//   C12-REPLAY PANIC member=<name> msg=.. Command::render_help / render_long_help panicked on it
use crate::output::display_width;
use crate::{Arg, ArgAction, Command};

fn field<'a>(json: &'a str, key: &str) -> Option<&'a str> {
    let pat = format!("\"{key}\":");
    let i = json.find(&pat)? + pat.len();
    let rest = json[i..].trim_start();
    let end = rest.find(|c| c == ',' || c == '}').unwrap_or(rest.len());
    Some(rest[..end].trim())
}
fn fbool(json: &str, key: &str) -> Option<bool> {
    match field(json, key)? {
        "true" => Some(true),
        "false" => Some(false),
        _ => None,
    }
}
fn fnum(json: &str, key: &str) -> Option<usize> {
    field(json, key)?.parse().ok()
}

fn family() -> Vec<(String, Command, &'static str)> {
    let mut out = Vec::new();
    let actions: [(&str, ArgAction); 6] = [
        ("set_true", ArgAction::SetTrue),
        ("count", ArgAction::Count),
        ("help", ArgAction::Help),
        ("version", ArgAction::Version),
        ("set", ArgAction::Set),
        ("append", ArgAction::Append),
    ];
    for (an, act) in actions.iter() {
        for shape in ["short", "long", "both"] {
            for sibling in ["alone", "long_sibling", "short_sibling"] {
                let mut a = Arg::new("x").action(act.clone()).help("help text");
                if shape != "long" {
                    a = a.short('x');
                }
                if shape != "short" {
                    a = a.long("xx");
                }
                let mut cmd = Command::new("p").disable_help_flag(true).disable_version_flag(true).version("1").arg(a);
                if sibling == "long_sibling" {
                    cmd = cmd.arg(Arg::new("y").long("yyyyyy").action(ArgAction::SetTrue));
                } else if sibling == "short_sibling" {
                    cmd = cmd.arg(Arg::new("y").short('y').action(ArgAction::SetTrue));
                }
                out.push((format!("{shape}-only {an} flag/option, {sibling}"), cmd, "x"));
            }
        }
    }
    for (nm, range) in [("positional", 1..=1usize), ("positional_many", 1..=usize::MAX)] {
        let cmd = Command::new("p").disable_help_flag(true).arg(Arg::new("x").num_args(range).help("help"));
        out.push((nm.to_string(), cmd, "x"));
    }
    out
}

#[test]
fn native_c12() {
    let json = match std::env::var("VERIF_C12_MODEL") {
        Ok(j) => j,
        Err(_) => return,
    };
    let target = field(&json, "target").unwrap_or("").trim_matches('"').to_string();
    if target.starts_with("sub") {
        // subcommand column: width of "name[, -s][, --long]"
        let w = fnum(&json, "sc_width");
        for (nm, sc) in [
            ("plain", Command::new("sub")),
            ("short_flag", Command::new("sub").short_flag('s')),
            ("long_flag", Command::new("sub").long_flag("subsub")),
            ("long_name", Command::new("a-rather-long-subcommand-name")),
        ] {
            let mut cmd = Command::new("p").disable_help_flag(true).disable_help_subcommand(true).subcommand(sc.about("about")).subcommand(Command::new("z"));
            println!("C12-REPLAY MATCH member=subcommand {nm} (model width {w:?})");
            let r = std::panic::catch_unwind(std::panic::AssertUnwindSafe(|| {
                let _ = cmd.render_help().to_string();
                let _ = cmd.render_long_help().to_string();
            }));
            if let Err(e) = r {
                let msg = e.downcast_ref::<String>().cloned().or_else(|| e.downcast_ref::<&str>().map(|s| s.to_string())).unwrap_or_default();
                println!("C12-REPLAY PANIC member=subcommand {nm} msg={msg}");
            }
        }
        return;
    }
    let want = (
        fbool(&json, "positional"),
        fbool(&json, "has_long"),
        fbool(&json, "has_short"),
        fbool(&json, "takes_value"),
        fnum(&json, "width"),
    );
    for (name, mut cmd, id) in family() {
        cmd.build();
        let arg = cmd.get_arguments().find(|a| a.get_id() == id).unwrap().clone();
        let got = (
            arg.is_positional(),
            arg.get_long().is_some(),
            arg.get_short().is_some(),
            arg.is_takes_value_set(),
            display_width(&arg.to_string()),
        );
        println!(
            "C12-REPLAY MEMBER name={name} | positional={} has_long={} has_short={} takes_value={} width={}",
            got.0, got.1, got.2, got.3, got.4
        );
        let same = |w: Option<bool>, g: bool| w.map(|w| w == g).unwrap_or(true);
        let matches = same(want.0, got.0) && same(want.1, got.1) && same(want.2, got.2) && same(want.3, got.3) && want.4.map(|w| w == got.4).unwrap_or(true);
        if !matches {
            continue;
        }
        println!("C12-REPLAY MATCH member={name} measured={got:?}");
        let r = std::panic::catch_unwind(std::panic::AssertUnwindSafe(|| {
            let _ = cmd.render_help().to_string();
            let _ = cmd.render_long_help().to_string();
        }));
        if let Err(e) = r {
            let msg = e.downcast_ref::<String>().cloned().or_else(|| e.downcast_ref::<&str>().map(|s| s.to_string())).unwrap_or_default();
            println!("C12-REPLAY PANIC member={name} msg={msg}");
        }
    }
}
