// Native realisation of Engine B spec violations (C12 visibility, C10/C02 value counts) through
// the PUBLIC API: the same statements the specs encode, evaluated on small exhaustive families.
// Prints  SPEC-REPLAY MISMATCH target=<t> case=<...>  for every case where the real crate deviates.
use crate::error::ErrorKind;
use crate::{Arg, ArgAction, Command};

fn listed(cmd: &mut Command, long: bool, needle: &str) -> bool {
    let h = if long { cmd.render_long_help().to_string() } else { cmd.render_help().to_string() };
    h.contains(needle)
}

#[test]
fn native_spec() {
    let target = match std::env::var("VERIF_SPEC_TARGET") {
        Ok(t) => t,
        Err(_) => return,
    };
    if target == "should_show_arg" {
        for bits in 0..16u8 {
            let (hide, hl, hs, nlh) = (bits & 1 != 0, bits & 2 != 0, bits & 4 != 0, bits & 8 != 0);
            for long in [false, true] {
                let arg = Arg::new("zzopt").long("zzopt").action(ArgAction::SetTrue).help("zzhelp").hide(hide).hide_long_help(hl).hide_short_help(hs).next_line_help(nlh);
                let mut cmd = Command::new("p").arg(arg).arg(Arg::new("other").long("other").action(ArgAction::SetTrue));
                let expect = !hide && ((!hl && long) || (!hs && !long) || nlh);
                let got = listed(&mut cmd, long, "--zzopt");
                if got != expect {
                    println!("SPEC-REPLAY MISMATCH target=should_show_arg case=hide={hide} hide_long_help={hl} hide_short_help={hs} next_line_help={nlh} long_help={long}: listed={got} expected={expect}");
                }
            }
        }
    } else if target == "should_show_subcommand" {
        for hide in [false, true] {
            let mut cmd = Command::new("p").subcommand(Command::new("zzsub").about("x").hide(hide)).subcommand(Command::new("other"));
            for long in [false, true] {
                let got = listed(&mut cmd, long, "zzsub");
                if got != !hide {
                    println!("SPEC-REPLAY MISMATCH target=should_show_subcommand case=hide={hide} long_help={long}: listed={got}");
                }
            }
        }
    } else if target == "typed_remove" || target == "typed_get" {
        // C04: typed access with the wrong type fails WITHOUT disturbing the stored values
        let m0 = Command::new("p")
            .arg(Arg::new("port").long("port").value_parser(crate::value_parser!(u16)).action(ArgAction::Set))
            .try_get_matches_from(["p", "--port", "80"])
            .unwrap();
        let mut m = m0.clone();
        if !matches!(m.try_get_one::<String>("port"), Err(crate::parser::MatchesError::Downcast { .. })) {
            println!("SPEC-REPLAY MISMATCH target={target} case=try_get_one::<String> on a u16 argument did not report Downcast");
        }
        if !matches!(m.try_remove_one::<String>("port"), Err(crate::parser::MatchesError::Downcast { .. })) {
            println!("SPEC-REPLAY MISMATCH target={target} case=try_remove_one::<String> on a u16 argument did not report Downcast");
        }
        if m.try_get_one::<u16>("port").ok().flatten().copied() != Some(80) {
            println!("SPEC-REPLAY MISMATCH target={target} case=after a failed try_remove_one::<String>(\"port\") the u16 value 80 is gone: {:?}", m.try_get_one::<u16>("port"));
        }
        if m != m0 {
            println!("SPEC-REPLAY MISMATCH target={target} case=matches differ after failed typed accesses");
        }
        if m.try_remove_one::<u16>("port").ok().flatten() != Some(80) || m.try_get_one::<u16>("port").ok().flatten().is_some() {
            println!("SPEC-REPLAY MISMATCH target={target} case=a correctly typed remove did not take the value out");
        }
    } else if target == "trailing_positional" || target == "escape_detected" {
        // C05: every token after the first bare `--` reaches the positionals verbatim and in order
        let toks = ["x", "--flag", "-f", "--opt=v", "sub", "--", "", "--help", "-h"];
        for shape in ["multi", "multi_then_single"] {
            for a in 0..toks.len() {
                for b in 0..toks.len() {
                    let tail = vec!["v0", toks[a], toks[b], "vz"];
                    let mut cmd = Command::new("p")
                        .arg(Arg::new("flag").long("flag").short('f').action(ArgAction::SetTrue))
                        .arg(Arg::new("opt").long("opt").action(ArgAction::Set))
                        .subcommand(Command::new("sub"));
                    cmd = if shape == "multi" {
                        cmd.arg(Arg::new("files").index(1).num_args(1..).action(ArgAction::Append))
                    } else {
                        cmd.arg(Arg::new("files").index(1).num_args(1..).required(true).action(ArgAction::Append))
                            .arg(Arg::new("target").index(2).required(true))
                    };
                    let mut argv = vec!["p", "--"];
                    argv.extend(tail.iter().copied());
                    match cmd.try_get_matches_from(argv.clone()) {
                        Ok(m) => {
                            let mut got: Vec<String> = m.get_many::<String>("files").map(|v| v.cloned().collect()).unwrap_or_default();
                            if shape != "multi" {
                                got.extend(m.get_one::<String>("target").cloned());
                            }
                            if got != tail || m.get_flag("flag") || m.get_one::<String>("opt").is_some() || m.subcommand_name().is_some() {
                                println!("SPEC-REPLAY MISMATCH target={target} case={argv:?} ({shape}): positionals got {got:?}, flag={} opt={:?} sub={:?}", m.get_flag("flag"), m.get_one::<String>("opt"), m.subcommand_name());
                            }
                        }
                        Err(e) => println!("SPEC-REPLAY MISMATCH target={target} case={argv:?} ({shape}): rejected as {:?} although every token follows `--`", e.kind()),
                    }
                }
            }
        }
        // a value-taking argument still in progress when `--` arrives (incl. negative-number-friendly ones)
        for neg in [false, true] {
            for tail in [vec!["-v", "--help"], vec!["-x"], vec!["--", "x"], vec!["sub"]] {
                let cmd = Command::new("p")
                    .arg(Arg::new("v").short('v').action(ArgAction::SetTrue))
                    .arg(Arg::new("nums").index(1).num_args(1..).allow_negative_numbers(neg).action(ArgAction::Append))
                    .subcommand(Command::new("sub"));
                let mut argv = vec!["p", "7", "--"];
                argv.extend(tail.iter().copied());
                let mut want = vec!["7".to_string()];
                want.extend(tail.iter().map(|s| s.to_string()));
                match cmd.try_get_matches_from(argv.clone()) {
                    Ok(m) => {
                        let got: Vec<String> = m.get_many::<String>("nums").map(|v| v.cloned().collect()).unwrap_or_default();
                        if got != want || m.get_flag("v") || m.subcommand_name().is_some() {
                            println!("SPEC-REPLAY MISMATCH target={target} case={argv:?} allow_negative_numbers={neg}: positional got {got:?}, v={} sub={:?}", m.get_flag("v"), m.subcommand_name());
                        }
                    }
                    Err(e) => println!("SPEC-REPLAY MISMATCH target={target} case={argv:?} allow_negative_numbers={neg}: rejected as {:?}", e.kind()),
                }
            }
        }
    } else if target == "id_closures_total" {
        // C01: parsing never panics.  Commands whose matcher holds GROUP ids next to argument ids, in the
        // situations where the parser/validator maps over all matcher ids to build an error.
        std::panic::set_hook(Box::new(|_| {}));
        for acws in [false, true] {
            for grouped in [false, true] {
                for argv in [
                    vec!["p", "--a", "--sub"], vec!["p", "--a", "-S"], vec!["p", "--a", "sub"], vec!["p", "--a", "--b"],
                    vec!["p", "--a", "zzz"], vec!["p", "--a", "--a"], vec!["p", "--b", "--sub"], vec!["p", "--a", "--", "--sub"],
                ] {
                    let argv2 = argv.clone();
                    let r = std::panic::catch_unwind(move || {
                        let mut cmd = Command::new("p")
                            .args_conflicts_with_subcommands(acws)
                            .arg(Arg::new("a").long("a").action(ArgAction::SetTrue))
                            .arg(Arg::new("b").long("b").action(ArgAction::SetTrue).conflicts_with("a"))
                            .subcommand(Command::new("sub").long_flag("sub").short_flag('S'));
                        if grouped {
                            cmd = cmd.group(crate::ArgGroup::new("g").arg("a").multiple(true));
                        }
                        let _ = cmd.try_get_matches_from(argv2).map_err(|e| e.to_string());
                    });
                    if let Err(e) = r {
                        let msg = e.downcast_ref::<String>().cloned().or_else(|| e.downcast_ref::<&str>().map(|s| s.to_string())).unwrap_or_default();
                        println!("SPEC-REPLAY MISMATCH target=id_closures_total case={argv:?} args_conflicts_with_subcommands={acws} a_in_group={grouped}: parsing PANICKED: {}", msg.replace('\n', " ").chars().take(100).collect::<String>());
                    }
                }
            }
        }
        let _ = std::panic::take_hook();
    } else if target == "parse_subcommand" {
        // C09: the chain of subcommands is the chain named on the command line and each level's
        // arguments are parsed against that level's definition only (same-named args at each level)
        let mk = || {
            Command::new("p")
                .arg(Arg::new("x").long("x").action(ArgAction::Set))
                .subcommand(
                    Command::new("sub")
                        .alias("s")
                        .arg(Arg::new("x").long("x").action(ArgAction::Set))
                        .arg(Arg::new("y").long("y").action(ArgAction::SetTrue))
                        .subcommand(Command::new("leaf").arg(Arg::new("x").long("x").action(ArgAction::Set))),
                )
        };
        for (argv, want) in [
            (vec!["p", "--x", "0", "sub", "--x", "1", "--y", "leaf", "--x", "2"], vec![Some("0"), Some("1"), Some("2")]),
            (vec!["p", "sub", "--x", "1", "leaf"], vec![None, Some("1"), None]),
            (vec!["p", "--x", "0", "s", "leaf", "--x", "2"], vec![Some("0"), None, Some("2")]),
            (vec!["p", "sub", "leaf", "--x", "2"], vec![None, None, Some("2")]),
        ] {
            match mk().try_get_matches_from(argv.clone()) {
                Ok(m) => {
                    let l0 = m.get_one::<String>("x").map(|s| s.as_str());
                    let (n1, m1) = match m.subcommand() {
                        Some(x) => x,
                        None => {
                            println!("SPEC-REPLAY MISMATCH target=parse_subcommand case={argv:?}: no subcommand reported");
                            continue;
                        }
                    };
                    let l1 = m1.get_one::<String>("x").map(|s| s.as_str());
                    let (n2, l2) = match m1.subcommand() {
                        Some((n, m2)) => (n, m2.get_one::<String>("x").map(|s| s.as_str())),
                        None => ("", None),
                    };
                    if n1 != "sub" || n2 != "leaf" || vec![l0, l1, l2] != want || m1.get_flag("y") != argv.contains(&"--y") {
                        println!("SPEC-REPLAY MISMATCH target=parse_subcommand case={argv:?}: chain {n1}/{n2}, --x per level {:?}, expected sub/leaf {want:?}", vec![l0, l1, l2]);
                    }
                }
                Err(e) => println!("SPEC-REPLAY MISMATCH target=parse_subcommand case={argv:?}: rejected as {:?}", e.kind()),
            }
        }
        // C01: with ignore_errors an explicit help / version request is still reported, at every level
        for (argv, want) in [
            (vec!["prog", "--help"], Some(ErrorKind::DisplayHelp)),
            (vec!["prog", "sub", "--help"], Some(ErrorKind::DisplayHelp)),
            (vec!["prog", "sub", "deep", "-h"], Some(ErrorKind::DisplayHelp)),
            (vec!["prog", "sub", "--version"], Some(ErrorKind::DisplayVersion)),
            (vec!["prog", "sub", "--bogus"], None),
            (vec!["prog", "sub", "deep", "--bogus"], None),
        ] {
            let cmd = Command::new("prog").ignore_errors(true).version("1.0").propagate_version(true)
                .subcommand(Command::new("sub").arg(Arg::new("x").long("x").action(ArgAction::SetTrue)).subcommand(Command::new("deep")));
            let got = cmd.try_get_matches_from(argv.clone()).err().map(|e| e.kind());
            if got != want {
                println!("SPEC-REPLAY MISMATCH target=parse_subcommand case=ignore_errors(true) {argv:?}: {got:?}, expected {want:?}");
            }
        }
    } else if target == "build_once" {
        // C11: building is idempotent; reuse through the by-reference entry point gives equal results
        std::panic::set_hook(Box::new(|_| {}));
        let r = std::panic::catch_unwind(|| {
            let mk = || {
                Command::new("p")
                    .version("1.0")
                    .arg(Arg::new("x").long("x").action(ArgAction::Set).global(true))
                    .arg(Arg::new("f").short('f').action(ArgAction::Count))
                    .group(crate::ArgGroup::new("g").arg("f"))
                    .subcommand(Command::new("sub").arg(Arg::new("y").long("y").action(ArgAction::SetTrue)))
            };
            let mut out = Vec::new();
            let mut fresh = mk();
            let m_fresh = fresh.try_get_matches_from_mut(["p", "-ff", "--x", "1", "sub", "--y"]).map_err(|e| e.kind());
            let mut reused = mk();
            reused.build();
            let h1 = reused.render_help().to_string();
            let n_args1 = reused.get_arguments().count();
            reused.build();
            reused.build();
            let h2 = reused.render_help().to_string();
            if h1 != h2 || n_args1 != reused.get_arguments().count() {
                out.push(format!("help or argument list differ after building again ({} vs {} arguments)", n_args1, reused.get_arguments().count()));
            }
            let _ = reused.try_get_matches_from_mut(["p", "--bogus"]);
            let m_again = reused.try_get_matches_from_mut(["p", "-ff", "--x", "1", "sub", "--y"]).map_err(|e| e.kind());
            if m_fresh != m_again {
                out.push("matches of a reused, pre-built command differ from a fresh one".to_string());
            }
            out
        });
        let _ = std::panic::take_hook();
        match r {
            Ok(v) => {
                for m in v {
                    println!("SPEC-REPLAY MISMATCH target=build_once case=build x3 / parse after failed parse: {m}");
                }
            }
            Err(e) => {
                let msg = e.downcast_ref::<String>().cloned().or_else(|| e.downcast_ref::<&str>().map(|s| s.to_string())).unwrap_or_default();
                println!("SPEC-REPLAY MISMATCH target=build_once case=build x3 / reuse: PANICKED: {}", msg.replace('\n', " ").chars().take(140).collect::<String>());
            }
        }
    } else if target == "unique_prefix" {
        // C08: an unambiguous prefix equals the full name; an ambiguous one is never silently resolved
        let mk = || {
            Command::new("p")
                .infer_subcommands(true)
                .infer_long_args(true)
                .arg(Arg::new("verbose").long("verbose").action(ArgAction::SetTrue))
                .arg(Arg::new("version2").long("verify").action(ArgAction::SetTrue))
                .arg(Arg::new("quiet").short('q').alias("quiet").action(ArgAction::SetTrue))
                .arg(Arg::new("quick").long("quick").action(ArgAction::SetTrue))
                .subcommand(Command::new("test").long_flag("testflag"))
                .subcommand(Command::new("temp").long_flag("tempflag"))
                .subcommand(Command::new("build"))
        };
        // (argv, Some(expected subcommand or flag id) / None = must be rejected)
        let cases: Vec<(Vec<&str>, Option<&str>)> = vec![
            (vec!["p", "te"], None), (vec!["p", "t"], None), (vec!["p", "tes"], Some("sub:test")), (vec!["p", "b"], Some("sub:build")),
            (vec!["p", "test"], Some("sub:test")), (vec!["p", "--te"], None), (vec!["p", "--tes"], Some("sub:test")), (vec!["p", "--tem"], Some("sub:temp")),
            (vec!["p", "--ver"], None), (vec!["p", "--verb"], Some("flag:verbose")), (vec!["p", "--veri"], Some("flag:version2")),
            (vec!["p", "--qui"], None), (vec!["p", "--quie"], Some("flag:quiet")), (vec!["p", "--quic"], Some("flag:quick")),
        ];
        for (argv, want) in cases {
            let r = mk().try_get_matches_from(argv.clone());
            let got = match &r {
                Ok(m) => {
                    if let Some(n) = m.subcommand_name() {
                        Some(format!("sub:{n}"))
                    } else {
                        ["verbose", "version2", "quiet", "quick"].iter().find(|id| m.get_flag(id)).map(|id| format!("flag:{id}"))
                    }
                }
                Err(_) => None,
            };
            if got.as_deref() != want {
                println!("SPEC-REPLAY MISMATCH target=unique_prefix case={argv:?}: resolved to {got:?}, expected {want:?} (None = rejected as ambiguous/unknown)");
            }
        }
    } else if target == "react_actions" {
        // C07: occurrences combine by action
        let mk = |over: bool| {
            Command::new("p")
                .args_override_self(over)
                .arg(Arg::new("set").long("set").action(ArgAction::Set))
                .arg(Arg::new("app").long("app").action(ArgAction::Append))
                .arg(Arg::new("t").long("t").action(ArgAction::SetTrue))
                .arg(Arg::new("f").long("f").action(ArgAction::SetFalse))
                .arg(Arg::new("c").short('c').action(ArgAction::Count))
        };
        for over in [false, true] {
            let r = mk(over).try_get_matches_from(["p", "--set", "1", "--set", "2"]);
            match (&r, over) {
                (Ok(m), true) if m.get_one::<String>("set").map(|s| s.as_str()) == Some("2") => {}
                (Err(e), false) if e.kind() == ErrorKind::ArgumentConflict => {}
                _ => println!("SPEC-REPLAY MISMATCH target=react_actions case=--set 1 --set 2 args_override_self={over}: {:?}", r.as_ref().map(|m| m.get_one::<String>("set").cloned()).map_err(|e| e.kind())),
            }
            let r = mk(over).try_get_matches_from(["p", "--t", "--t"]);
            if r.is_ok() != over {
                println!("SPEC-REPLAY MISMATCH target=react_actions case=--t --t args_override_self={over}: accepted={}", r.is_ok());
            }
        }
        // per-argument self-override behaves like args_override_self for that argument
        for (id, action, argv, _) in [
            ("s", ArgAction::Set, vec!["p", "--s", "1", "--s", "2"], 0),
            ("s", ArgAction::SetTrue, vec!["p", "--s", "--s"], 0),
            ("s", ArgAction::SetFalse, vec!["p", "--s", "--s"], 0),
        ] {
            let r = Command::new("p").arg(Arg::new(id).long("s").action(action.clone()).overrides_with(id)).try_get_matches_from(argv.clone());
            if let Err(e) = &r {
                println!("SPEC-REPLAY MISMATCH target=react_actions case={argv:?} with {action:?} and overrides_with(self): rejected as {:?}", e.kind());
            }
        }
        let m = mk(false).try_get_matches_from(["p", "--app", "a", "--t", "--app", "b", "--f", "--app", "c"]).unwrap();
        let app: Vec<String> = m.get_many::<String>("app").unwrap().cloned().collect();
        if app != ["a", "b", "c"] || !m.get_flag("t") || m.get_flag("f") {
            println!("SPEC-REPLAY MISMATCH target=react_actions case=append/set-true/set-false: app={app:?} t={} f={}", m.get_flag("t"), m.get_flag("f"));
        }
        let m0 = mk(false).try_get_matches_from(["p"]).unwrap();
        if m0.get_flag("t") || !m0.get_flag("f") || m0.get_count("c") != 0 {
            println!("SPEC-REPLAY MISMATCH target=react_actions case=absent flags: t={} f={} c={}", m0.get_flag("t"), m0.get_flag("f"), m0.get_count("c"));
        }
        for n in [1usize, 2, 254, 255, 256, 300] {
            let mut argv = vec!["p".to_string()];
            argv.extend(std::iter::repeat("-c".to_string()).take(n));
            let got = mk(false).try_get_matches_from(argv).map(|m| m.get_count("c"));
            if got.as_ref().ok().copied() != Some(n.min(255) as u8) {
                println!("SPEC-REPLAY MISMATCH target=react_actions case={n} x -c: count {:?}, expected {}", got.map_err(|e| e.kind()), n.min(255));
            }
        }
    } else if target == "react_delimiter" || target == "trailing_idx_once" {
        // C02: values are split only at the declared delimiter and no piece is dropped
        for (argv, want) in [
            (vec!["p", "-o", "a,,b"], vec!["a", "", "b"]),
            (vec!["p", "-o", ",a"], vec!["", "a"]),
            (vec!["p", "-o", "a,"], vec!["a", ""]),
            (vec!["p", "-o", "a;b"], vec!["a;b"]),
            (vec!["p", "-o", "a,b", "-o", "c"], vec!["a", "b", "c"]),
        ] {
            let cmd = Command::new("p").arg(Arg::new("o").short('o').action(ArgAction::Append).value_delimiter(','));
            match cmd.try_get_matches_from(argv.clone()) {
                Ok(m) => {
                    let got: Vec<String> = m.get_many::<String>("o").map(|v| v.cloned().collect()).unwrap_or_default();
                    if got != want {
                        println!("SPEC-REPLAY MISMATCH target=react_delimiter case={argv:?} with value_delimiter(','): values {got:?}, expected {want:?}");
                    }
                }
                Err(e) => println!("SPEC-REPLAY MISMATCH target=react_delimiter case={argv:?}: rejected as {:?}", e.kind()),
            }
        }
        // ... and with dont_delimit_trailing_values every value after `--` is kept whole, values before it are split
        for (argv, want) in [
            (vec!["p", "--", "c,d"], vec!["c,d"]),
            (vec!["p", "--", "a,b", "c,d"], vec!["a,b", "c,d"]),
            (vec!["p", "--", "a,b", "c,d", "e,f"], vec!["a,b", "c,d", "e,f"]),
            (vec!["p", "a,b", "--", "c,d"], vec!["a", "b", "c,d"]),
            (vec!["p", "a,b", "c", "--", "c,d", "e,f"], vec!["a", "b", "c", "c,d", "e,f"]),
            (vec!["p", "a,b", "c,d"], vec!["a", "b", "c", "d"]),
        ] {
            let cmd = Command::new("p").dont_delimit_trailing_values(true).arg(Arg::new("files").num_args(1..).value_delimiter(',').action(ArgAction::Append));
            match cmd.try_get_matches_from(argv.clone()) {
                Ok(m) => {
                    let got: Vec<String> = m.get_many::<String>("files").map(|v| v.cloned().collect()).unwrap_or_default();
                    if got != want {
                        println!("SPEC-REPLAY MISMATCH target=react_delimiter case={argv:?} with dont_delimit_trailing_values and value_delimiter(','): values {got:?}, expected {want:?}");
                    }
                }
                Err(e) => println!("SPEC-REPLAY MISMATCH target=react_delimiter case={argv:?} (dont_delimit_trailing_values): rejected as {:?}", e.kind()),
            }
        }
    } else if target == "remove_overrides" {
        // C07: an argument that overrides another removes the other's earlier occurrences, in either
        // order of appearance, and ALL overriders are removed when the overridden one appears later
        let mk = || {
            Command::new("p")
                .arg(Arg::new("verbose").long("verbose").action(ArgAction::Count))
                .arg(Arg::new("quiet").long("quiet").action(ArgAction::SetTrue).overrides_with("verbose"))
                .arg(Arg::new("silent").long("silent").action(ArgAction::Set).overrides_with("verbose"))
        };
        for (argv, want) in [
            (vec!["p", "--quiet", "--silent=x", "--verbose"], (1u8, false, None)),
            (vec!["p", "--verbose", "--verbose", "--quiet"], (0u8, true, None)),
            (vec!["p", "--quiet", "--verbose"], (1u8, false, None)),
            (vec!["p", "--verbose", "--silent=x"], (0u8, false, Some("x"))),
        ] {
            match mk().try_get_matches_from(argv.clone()) {
                Ok(m) => {
                    let got = (m.get_count("verbose"), m.get_flag("quiet"), m.get_one::<String>("silent").map(|s| s.as_str()));
                    if got != want {
                        println!("SPEC-REPLAY MISMATCH target=remove_overrides case={argv:?}: (verbose, quiet, silent) = {got:?}, expected {want:?}");
                    }
                }
                Err(e) => println!("SPEC-REPLAY MISMATCH target=remove_overrides case={argv:?}: rejected as {:?}", e.kind()),
            }
        }
    } else if target == "help_possible_values" {
        // C12: help renders for any mix of hidden / visible possible values with or without help
        std::panic::set_hook(Box::new(|_| {}));
        for bits in 0..16u8 {
            let (h1, help1, h2, help2) = (bits & 1 != 0, bits & 2 != 0, bits & 4 != 0, bits & 8 != 0);
            let r = std::panic::catch_unwind(move || {
                let mut p1 = crate::builder::PossibleValue::new("zzone").hide(h1);
                if help1 {
                    p1 = p1.help("first");
                }
                let mut p2 = crate::builder::PossibleValue::new("zztwo").hide(h2);
                if help2 {
                    p2 = p2.help("second");
                }
                let mut cmd = Command::new("p").long_about("long").arg(Arg::new("m").long("mode").action(ArgAction::Set).value_parser([p1, p2]).help("mode"));
                (cmd.render_help().to_string(), cmd.render_long_help().to_string())
            });
            match r {
                Ok((s, l)) => {
                    for (what, text) in [("short", &s), ("long", &l)] {
                        if (h1 && text.contains("zzone")) || (h2 && text.contains("zztwo")) {
                            println!("SPEC-REPLAY MISMATCH target=help_possible_values case=hide1={h1} help1={help1} hide2={h2} help2={help2}: a hidden possible value appears in {what} help");
                        }
                    }
                }
                Err(e) => {
                    let msg = e.downcast_ref::<String>().cloned().or_else(|| e.downcast_ref::<&str>().map(|s| s.to_string())).unwrap_or_default();
                    println!("SPEC-REPLAY MISMATCH target=help_possible_values case=hide1={h1} help1={help1} hide2={h2} help2={help2}: help rendering PANICKED: {}", msg.chars().take(80).collect::<String>());
                }
            }
        }
        let _ = std::panic::take_hook();
    } else if target == "hyphen_value_guard" {
        // C02/C08: an argument that is being filled and allows hyphen values takes flag-looking tokens as values,
        // whether it is an option or a positional, whether the token is long or short, known or unknown
        for pending in ["opt", "pos"] {
            for tok in ["--flag", "-f", "--unknown", "-x", "--flag=1"] {
                let cmd = Command::new("p")
                    .arg(Arg::new("flag").long("flag").short('f').action(ArgAction::SetTrue))
                    .arg(Arg::new("opt").long("opt").num_args(1..).allow_hyphen_values(pending == "opt").action(ArgAction::Append))
                    .arg(Arg::new("files").index(1).num_args(1..).allow_hyphen_values(pending == "pos").action(ArgAction::Append));
                let argv: Vec<&str> = if pending == "opt" { vec!["p", "--opt", "v0", tok, "v1"] } else { vec!["p", "v0", tok, "v1"] };
                let id = if pending == "opt" { "opt" } else { "files" };
                match cmd.try_get_matches_from(argv.clone()) {
                    Ok(m) => {
                        let got: Vec<String> = m.get_many::<String>(id).map(|v| v.cloned().collect()).unwrap_or_default();
                        if got != ["v0", tok, "v1"] || m.get_flag("flag") {
                            println!("SPEC-REPLAY MISMATCH target=hyphen_value_guard case=pending={pending} argv={argv:?}: values={got:?} flag={}", m.get_flag("flag"));
                        }
                    }
                    Err(e) => println!("SPEC-REPLAY MISMATCH target=hyphen_value_guard case=pending={pending} argv={argv:?}: rejected with {:?}", e.kind()),
                }
            }
        }
    } else if target == "validate_required_step" {
        // C03/C10: what validate_required reports as missing, on small families
        let names = |e: &crate::Error| -> Vec<String> {
            match e.get(crate::error::ContextKind::InvalidArg) {
                Some(crate::error::ContextValue::Strings(v)) => v.clone(),
                Some(crate::error::ContextValue::String(s)) => vec![s.clone()],
                _ => vec![],
            }
        };
        // required_if_eq_any: ANY listed (arg, value) pair being present makes the argument required
        for mask in 0..8u8 {
            let conds = [("a", "1"), ("b", "1"), ("c", "1")];
            let cmd = Command::new("p")
                .arg(Arg::new("a").long("a").action(ArgAction::Set))
                .arg(Arg::new("b").long("b").action(ArgAction::Set))
                .arg(Arg::new("c").long("c").action(ArgAction::Set))
                .arg(Arg::new("t").long("t").action(ArgAction::Set).required_if_eq_any(conds));
            let mut argv = vec!["p".to_string()];
            for (k, (n, _)) in conds.iter().enumerate() {
                argv.push(format!("--{n}"));
                argv.push(if mask & (1 << k) != 0 { "1".into() } else { "0".into() });
            }
            let r = cmd.try_get_matches_from(argv.clone());
            let want_err = mask != 0;
            match r {
                Ok(_) if want_err => println!("SPEC-REPLAY MISMATCH target=validate_required_step case=required_if_eq_any {argv:?}: accepted although a listed condition holds"),
                Err(e) if !want_err => println!("SPEC-REPLAY MISMATCH target=validate_required_step case=required_if_eq_any {argv:?}: rejected ({:?}) although no condition holds", e.kind()),
                Err(e) if e.kind() != ErrorKind::MissingRequiredArgument || names(&e) != ["--t <t>"] =>
                    println!("SPEC-REPLAY MISMATCH target=validate_required_step case=required_if_eq_any {argv:?}: kind={:?} names={:?}", e.kind(), names(&e)),
                _ => {}
            }
        }
        // required_if_eq_all: ALL pairs must hold
        for mask in 0..4u8 {
            let cmd = Command::new("p")
                .arg(Arg::new("a").long("a").action(ArgAction::Set))
                .arg(Arg::new("b").long("b").action(ArgAction::Set))
                .arg(Arg::new("t").long("t").action(ArgAction::Set).required_if_eq_all([("a", "1"), ("b", "1")]));
            let argv = vec!["p", "--a", if mask & 1 != 0 { "1" } else { "0" }, "--b", if mask & 2 != 0 { "1" } else { "0" }];
            let r = cmd.try_get_matches_from(argv.clone());
            if r.is_err() != (mask == 3) {
                println!("SPEC-REPLAY MISMATCH target=validate_required_step case=required_if_eq_all {argv:?}: rejected={}", r.is_err());
            }
        }
        // required_unless_present_any / _all
        for mask in 0..4u8 {
            for all in [false, true] {
                let t = Arg::new("t").long("t").action(ArgAction::Set);
                let t = if all { t.required_unless_present_all(["a", "b"]) } else { t.required_unless_present_any(["a", "b"]) };
                let cmd = Command::new("p").arg(Arg::new("a").long("a").action(ArgAction::SetTrue)).arg(Arg::new("b").long("b").action(ArgAction::SetTrue)).arg(t);
                let mut argv = vec!["p"];
                if mask & 1 != 0 { argv.push("--a"); }
                if mask & 2 != 0 { argv.push("--b"); }
                let excused = if all { mask == 3 } else { mask != 0 };
                let r = cmd.try_get_matches_from(argv.clone());
                if r.is_err() == excused {
                    println!("SPEC-REPLAY MISMATCH target=validate_required_step case=required_unless_present_{} {argv:?}: rejected={}", if all { "all" } else { "any" }, r.is_err());
                }
            }
        }
        // an exclusive argument that is present excuses every requirement
        {
            let cmd = Command::new("p").arg(Arg::new("x").long("x").action(ArgAction::SetTrue).exclusive(true)).arg(Arg::new("t").long("t").action(ArgAction::Set).required(true));
            if cmd.clone().try_get_matches_from(["p", "--x"]).is_err() {
                println!("SPEC-REPLAY MISMATCH target=validate_required_step case=exclusive flag present, required option absent: rejected");
            }
            if cmd.try_get_matches_from(["p"]).map_err(|e| e.kind()) != Err(ErrorKind::MissingRequiredArgument) {
                println!("SPEC-REPLAY MISMATCH target=validate_required_step case=required option absent: not MissingRequiredArgument");
            }
        }
        // a required group is satisfied by any member
        for mask in 0..4u8 {
            let cmd = Command::new("p").arg(Arg::new("a").long("a").action(ArgAction::SetTrue)).arg(Arg::new("b").long("b").action(ArgAction::SetTrue))
                .group(crate::ArgGroup::new("g").args(["a", "b"]).required(true).multiple(true));
            let mut argv = vec!["p"];
            if mask & 1 != 0 { argv.push("--a"); }
            if mask & 2 != 0 { argv.push("--b"); }
            let r = cmd.try_get_matches_from(argv.clone());
            if r.is_err() != (mask == 0) {
                println!("SPEC-REPLAY MISMATCH target=validate_required_step case=required group {argv:?}: rejected={}", r.is_err());
            }
        }
        // the missing list: preceding positionals are named only below the highest missing NON-last index
        {
            let cmd = Command::new("p").arg(Arg::new("first")).arg(Arg::new("second")).arg(Arg::new("cmd").last(true).required(true).num_args(1..));
            for argv in [vec!["p"], vec!["p", "a"]] {
                match cmd.clone().try_get_matches_from(argv.clone()) {
                    Err(e) if e.kind() == ErrorKind::MissingRequiredArgument && names(&e) == ["<cmd>..."] => {}
                    Err(e) => println!("SPEC-REPLAY MISMATCH target=validate_required_step case=missing `last` positional {argv:?}: kind={:?} names={:?}", e.kind(), names(&e)),
                    Ok(_) => println!("SPEC-REPLAY MISMATCH target=validate_required_step case=missing `last` positional {argv:?}: accepted"),
                }
            }
            let cmd = Command::new("p").arg(Arg::new("x").long("x").action(ArgAction::SetTrue)).arg(Arg::new("first")).arg(Arg::new("second"))
                .arg(Arg::new("third").required_unless_present("x")).arg(Arg::new("fourth"));
            match cmd.try_get_matches_from(["p"]) {
                Err(e) if e.kind() == ErrorKind::MissingRequiredArgument && names(&e) == ["<first>", "<second>", "<third>"] => {}
                Err(e) => println!("SPEC-REPLAY MISMATCH target=validate_required_step case=missing third positional: kind={:?} names={:?}", e.kind(), names(&e)),
                Ok(_) => println!("SPEC-REPLAY MISMATCH target=validate_required_step case=missing third positional: accepted"),
            }
        }
    } else if target == "direct_conflicts" {
        // C03: conflicts declared on an argument, on its group (multiple or not), and between members of a non-multiple group
        for multiple in [false, true] {
            for (argv, want_conflict) in [
                (vec!["p", "--a"], false),
                (vec!["p", "--a", "--b"], !multiple),
                (vec!["p", "--a", "--c"], true),
                (vec!["p", "--c", "--b"], true),
                (vec!["p", "--c"], false),
                (vec!["p", "--a", "--d"], true),
                (vec!["p", "--d", "--a"], true),
                (vec!["p", "--b", "--d"], false),
                (vec!["p", "--c", "--d"], false),
            ] {
                let cmd = Command::new("p")
                    .arg(Arg::new("a").long("a").action(ArgAction::SetTrue).conflicts_with("d"))
                    .arg(Arg::new("b").long("b").action(ArgAction::SetTrue))
                    .arg(Arg::new("c").long("c").action(ArgAction::SetTrue))
                    .arg(Arg::new("d").long("d").action(ArgAction::SetTrue))
                    .group(crate::ArgGroup::new("g").args(["a", "b"]).multiple(multiple).conflicts_with("c"));
                let r = cmd.try_get_matches_from(argv.clone());
                let got = matches!(&r, Err(e) if e.kind() == ErrorKind::ArgumentConflict);
                if got != want_conflict || (r.is_err() && !got) {
                    println!("SPEC-REPLAY MISMATCH target=direct_conflicts case=group(multiple={multiple}, conflicts_with c) {argv:?}: conflict reported={got}, expected={want_conflict} ({:?})", r.as_ref().err().map(|e| e.kind()));
                }
            }
        }
        // ... and a group that conflicts with another GROUP (seen only from the declaring group's members)
        for multiple in [false, true] {
            for (argv, want_conflict) in [
                (vec!["p", "--a", "--c"], true),
                (vec!["p", "--e", "--b"], true),
                (vec!["p", "--a", "--b", "--e"], true),
                (vec!["p", "--a", "--b"], !multiple),
                (vec!["p", "--c"], false),
                (vec!["p", "--a"], false),
            ] {
                let cmd = Command::new("p")
                    .arg(Arg::new("a").long("a").action(ArgAction::SetTrue))
                    .arg(Arg::new("b").long("b").action(ArgAction::SetTrue))
                    .arg(Arg::new("c").long("c").action(ArgAction::SetTrue))
                    .arg(Arg::new("e").long("e").action(ArgAction::SetTrue))
                    .group(crate::ArgGroup::new("g").args(["a", "b"]).multiple(multiple).conflicts_with("h"))
                    .group(crate::ArgGroup::new("h").args(["c", "e"]));
                let r = cmd.try_get_matches_from(argv.clone());
                let got = matches!(&r, Err(e) if e.kind() == ErrorKind::ArgumentConflict);
                if got != want_conflict || (r.is_err() && !got) {
                    println!("SPEC-REPLAY MISMATCH target=direct_conflicts case=group g(multiple={multiple}) conflicts_with group h {argv:?}: conflict reported={got}, expected={want_conflict} ({:?})", r.as_ref().err().map(|e| e.kind()));
                }
            }
        }
    } else if target == "usage_hidden_positional" {
        // C12: an optional positional with `hide` set is not named in the usage line, `last` or not, multi-value or not
        for last in [false, true] {
            for multi in [false, true] {
                for hide in [false, true] {
                    let mut p = Arg::new("zzpass").value_name("ZZPASS").action(ArgAction::Append).last(last).hide(hide);
                    if multi {
                        p = p.num_args(1..);
                    }
                    let mut cmd = Command::new("p").disable_help_flag(true).arg(Arg::new("input")).arg(p);
                    let usage = cmd.render_usage().to_string();
                    let help = cmd.render_help().to_string();
                    for (what, text) in [("render_usage", &usage), ("render_help", &help)] {
                        let shown = text.contains("ZZPASS");
                        if shown == hide || !text.contains("[input]") || (hide && text.contains("--")) {
                            println!("SPEC-REPLAY MISMATCH target=usage_hidden_positional case=last={last} num_args(1..)={multi} hide={hide} {what}: {:?}", text);
                        }
                    }
                }
            }
        }
    } else if target == "positional_counter" {
        // C05: after `--` the tail goes to the `last` positional, verbatim, whether or not the current positional was terminated
        let raw = |m: &crate::ArgMatches, id: &str| -> Vec<String> { m.get_raw(id).map(|v| v.map(|s| s.to_string_lossy().into_owned()).collect()).unwrap_or_default() };
        for (argv, want_cmd, want_rest) in [
            (vec!["run", "--", "a", ";", "-v", "--", "b"], vec![], vec!["a", ";", "-v", "--", "b"]),
            (vec!["run", "x", "y", "--", "z", ";"], vec!["x", "y"], vec!["z", ";"]),
            (vec!["run", "x", ";", "--", "z", "w"], vec!["x"], vec!["z", "w"]),
            (vec!["run", "--", "z"], vec![], vec!["z"]),
            (vec!["run", "x"], vec!["x"], vec![]),
        ] {
            let cmd = Command::new("run")
                .arg(Arg::new("verbose").short('v').action(ArgAction::SetTrue))
                .arg(Arg::new("cmd").num_args(1..).value_terminator(";").action(ArgAction::Append))
                .arg(Arg::new("rest").num_args(1..).last(true).action(ArgAction::Append));
            match cmd.try_get_matches_from(argv.clone()) {
                Ok(m) => {
                    if raw(&m, "cmd") != want_cmd || raw(&m, "rest") != want_rest || m.get_flag("verbose") {
                        println!("SPEC-REPLAY MISMATCH target=positional_counter case={argv:?}: cmd={:?} rest={:?} verbose={} expected cmd={want_cmd:?} rest={want_rest:?}", raw(&m, "cmd"), raw(&m, "rest"), m.get_flag("verbose"));
                    }
                }
                Err(e) => println!("SPEC-REPLAY MISMATCH target=positional_counter case={argv:?}: rejected as {:?}", e.kind()),
            }
        }
        // ... and before any `--`: a terminated multi-value positional followed by another positional, with and
        // without allow_missing_positional (the look-ahead applies only while the positional is not terminated)
        for amp in [false, true] {
            for (argv, want_cmd, want_dest, want_v) in [
                (vec!["run", "echo", "hi", ";"], vec!["echo", "hi"], vec![], false),
                (vec!["run", "echo", "hi", "-v"], vec!["echo", "hi"], vec![], true),
                (vec!["run", "echo", "hi", "-v", ";", "out"], vec!["echo", "hi"], vec!["out"], true),
                (vec!["run", "echo", ";", "out"], vec!["echo"], vec!["out"], false),
            ] {
                let cmd = Command::new("run")
                    .allow_missing_positional(amp)
                    .arg(Arg::new("cmdline").action(ArgAction::Set).num_args(1..).value_terminator(";"))
                    .arg(Arg::new("dest"))
                    .arg(Arg::new("verbose").short('v').action(ArgAction::SetTrue));
                match cmd.try_get_matches_from(argv.clone()) {
                    Ok(m) => {
                        if raw(&m, "cmdline") != want_cmd || raw(&m, "dest") != want_dest || m.get_flag("verbose") != want_v {
                            println!("SPEC-REPLAY MISMATCH target=positional_counter case=allow_missing_positional={amp} {argv:?}: cmdline={:?} dest={:?} verbose={}; expected cmdline={want_cmd:?} dest={want_dest:?} verbose={want_v}", raw(&m, "cmdline"), raw(&m, "dest"), m.get_flag("verbose"));
                        }
                    }
                    Err(e) => println!("SPEC-REPLAY MISMATCH target=positional_counter case=allow_missing_positional={amp} {argv:?}: rejected as {:?}", e.kind()),
                }
            }
        }
    } else if target == "push_arg_values" || target == "react_index" {
        // C02: one index per reported value, strictly increasing in argv order; raw values are the argv substrings
        let cmd = Command::new("p")
            .arg(Arg::new("o").long("o").num_args(1..).action(ArgAction::Append))
            .arg(Arg::new("f").short('f').action(ArgAction::SetTrue))
            .arg(Arg::new("n").long("n").value_parser(crate::value_parser!(u8)).action(ArgAction::Append))
            .arg(Arg::new("pos").index(1).action(ArgAction::Append).num_args(1..));
        match cmd.clone().try_get_matches_from(["p", "--o", "a", "b", "-f", "x", "--o=c", "--n", "7", "y"]) {
            Ok(m) => {
                let idx = |id: &str| -> Vec<usize> { m.indices_of(id).map(|i| i.collect()).unwrap_or_default() };
                let raw = |id: &str| -> Vec<String> { m.get_raw(id).map(|v| v.map(|s| s.to_string_lossy().into_owned()).collect()).unwrap_or_default() };
                let got = (idx("o"), idx("f"), idx("pos"), idx("n"), raw("o"), raw("pos"), raw("n"));
                let want = (vec![2, 3, 7], vec![4], vec![5, 10], vec![9], vec!["a".to_string(), "b".into(), "c".into()], vec!["x".to_string(), "y".into()], vec!["7".to_string()]);
                if got != want || m.get_many::<u8>("n").map(|v| v.copied().collect::<Vec<_>>()) != Some(vec![7]) {
                    println!("SPEC-REPLAY MISMATCH target={target} case=p --o a b -f x --o=c --n 7 y: (indices o, f, pos, n; raw o, pos, n) = {got:?}, expected {want:?}");
                }
            }
            Err(e) => println!("SPEC-REPLAY MISMATCH target={target} case=valid line rejected: {:?}", e.kind()),
        }
        // a flag with an implied value takes ONE index; a Set option takes one for the flag and one per value; positionals one per value
        let cmd2 = Command::new("p")
            .arg(Arg::new("t").short('t').action(ArgAction::SetTrue))
            .arg(Arg::new("u").short('u').action(ArgAction::SetFalse))
            .arg(Arg::new("c").short('c').action(ArgAction::Count))
            .arg(Arg::new("s").short('s').long("set").action(ArgAction::Set))
            .arg(Arg::new("pos").index(1));
        match cmd2.try_get_matches_from(["p", "-t", "-s", "v", "-u", "x", "-c", "--set=w"]) {
            Ok(m) => {
                let idx = |id: &str| -> Vec<usize> { m.indices_of(id).map(|i| i.collect()).unwrap_or_default() };
                let got = (idx("t"), idx("s"), idx("u"), idx("pos"), idx("c"));
                let want = (vec![1], vec![9], vec![4], vec![5], vec![6]);
                if got != want {
                    println!("SPEC-REPLAY MISMATCH target={target} case=p -t -s v -u x -c --set=w (args_override_self off, so this must be a conflict) accepted with {got:?}");
                }
            }
            Err(e) if e.kind() == ErrorKind::ArgumentConflict => {}
            Err(e) => println!("SPEC-REPLAY MISMATCH target={target} case=p -t -s v -u x -c --set=w: {:?}", e.kind()),
        }
        let cmd3 = Command::new("p")
            .arg(Arg::new("t").short('t').action(ArgAction::SetTrue))
            .arg(Arg::new("u").short('u').action(ArgAction::SetFalse))
            .arg(Arg::new("c").short('c').action(ArgAction::Count))
            .arg(Arg::new("s").short('s').long("set").action(ArgAction::Set))
            .arg(Arg::new("pos").index(1));
        match cmd3.try_get_matches_from(["p", "-t", "-s", "v", "-u", "x", "-c"]) {
            Ok(m) => {
                let idx = |id: &str| -> Vec<usize> { m.indices_of(id).map(|i| i.collect()).unwrap_or_default() };
                let got = (idx("t"), idx("s"), idx("u"), idx("pos"), idx("c"));
                let want = (vec![1], vec![3], vec![4], vec![5], vec![6]);
                if got != want {
                    println!("SPEC-REPLAY MISMATCH target={target} case=p -t -s v -u x -c: indices (t, s, u, pos, c) = {got:?}, expected {want:?}");
                }
            }
            Err(e) => println!("SPEC-REPLAY MISMATCH target={target} case=p -t -s v -u x -c: rejected {:?}", e.kind()),
        }
        // every action opens its occurrence through the parser (override removal): a later occurrence of an argument
        // that overrides another - whatever its action - removes the other's earlier occurrence
        for action in ["count", "settrue", "setfalse", "set", "append"] {
            for declared_on_later in [false, true] {
                let mut later = Arg::new("later").short('l');
                later = match action {
                    "count" => later.action(ArgAction::Count),
                    "settrue" => later.action(ArgAction::SetTrue),
                    "setfalse" => later.action(ArgAction::SetFalse),
                    "set" => later.action(ArgAction::Set).require_equals(true).num_args(0..=1).default_missing_value("d"),
                    _ => later.action(ArgAction::Append).require_equals(true).num_args(0..=1).default_missing_value("d"),
                };
                let mut earlier = Arg::new("earlier").short('e').action(ArgAction::SetTrue);
                if declared_on_later {
                    later = later.overrides_with("earlier");
                } else {
                    earlier = earlier.overrides_with("later");
                }
                let cmd = Command::new("p").arg(later).arg(earlier);
                match cmd.try_get_matches_from(["p", "-e", "-l"]) {
                    Ok(m) => {
                        if m.get_flag("earlier") || m.value_source("later") != Some(crate::parser::ValueSource::CommandLine) {
                            println!("SPEC-REPLAY MISMATCH target={target} case=-e -l, `later` ({action}) overrides `earlier` (declared on {}): earlier={} later source={:?}",
                                if declared_on_later { "later" } else { "earlier" }, m.get_flag("earlier"), m.value_source("later"));
                        }
                    }
                    Err(e) => println!("SPEC-REPLAY MISMATCH target={target} case=-e -l, `later` ({action}) overrides `earlier` (declared on {}): rejected as {:?}", if declared_on_later { "later" } else { "earlier" }, e.kind()),
                }
            }
        }
        // a value that fails to parse is an error, nothing of it is reported
        match cmd.try_get_matches_from(["p", "--n", "7", "--n", "x7"]) {
            Err(e) if e.kind() == ErrorKind::ValueValidation => {}
            other => println!("SPEC-REPLAY MISMATCH target={target} case=--n x7 with a u8 parser: {:?}", other.map(|_| ()).map_err(|e| e.kind())),
        }
    } else if target == "source_precedence" {
        // C06: command line > environment > conditional default > default, per argument; nothing is overridden or appended to
        use crate::parser::ValueSource;
        std::env::set_var("VERIF_SP_ENV", "from-env");
        for cli in [false, true] {
            for env in [false, true] {
                for cond in [false, true] {
                    let mut o = Arg::new("o").long("o").action(ArgAction::Set).default_value("dflt").default_value_ifs([("k", "1", Some("cond1")), ("k", "2", Some("cond2"))]);
                    if env {
                        o = o.env("VERIF_SP_ENV");
                    }
                    let cmd = Command::new("p").arg(o).arg(Arg::new("k").long("k").action(ArgAction::Set));
                    let mut argv = vec!["p"];
                    if cli {
                        argv.extend(["--o", "from-cli"]);
                    }
                    if cond {
                        argv.extend(["--k", "1"]);
                    }
                    let (want_v, want_s) = if cli { ("from-cli", ValueSource::CommandLine) } else if env { ("from-env", ValueSource::EnvVariable) }
                        else if cond { ("cond1", ValueSource::DefaultValue) } else { ("dflt", ValueSource::DefaultValue) };
                    match cmd.try_get_matches_from(argv.clone()) {
                        Ok(m) => {
                            let got: Vec<String> = m.get_many::<String>("o").map(|v| v.cloned().collect()).unwrap_or_default();
                            if got != [want_v] || m.value_source("o") != Some(want_s) {
                                println!("SPEC-REPLAY MISMATCH target=source_precedence case={argv:?} env={env}: values {got:?} source {:?}, expected [{want_v:?}] {want_s:?}", m.value_source("o"));
                            }
                        }
                        Err(e) => println!("SPEC-REPLAY MISMATCH target=source_precedence case={argv:?} env={env}: rejected {:?}", e.kind()),
                    }
                }
            }
        }
        // Append: env/default values are not appended to command-line occurrences
        let cmd = Command::new("p").arg(Arg::new("a").long("a").action(ArgAction::Append).env("VERIF_SP_ENV").default_value("dflt"));
        match cmd.try_get_matches_from(["p", "--a", "x", "--a", "y"]) {
            Ok(m) => {
                let got: Vec<String> = m.get_many::<String>("a").map(|v| v.cloned().collect()).unwrap_or_default();
                if got != ["x", "y"] {
                    println!("SPEC-REPLAY MISMATCH target=source_precedence case=Append with env and default, two occurrences: {got:?}");
                }
            }
            Err(e) => println!("SPEC-REPLAY MISMATCH target=source_precedence case=Append rejected {:?}", e.kind()),
        }
    } else if target == "short_cluster_resume" {
        // C01/C02: a short cluster that continues after a flag subcommand (`-SaQz`) is revisited from the right flag,
        // whatever number of indices the flags before it took
        let mk = |append: bool| {
            Command::new("prog").subcommand(
                Command::new("sync")
                    .short_flag('S')
                    .arg(Arg::new("a").short('a').action(if append { ArgAction::Append } else { ArgAction::Set }).require_equals(true).num_args(0..=1).default_missing_value("x"))
                    .arg(Arg::new("b").short('b').action(ArgAction::SetTrue))
                    .arg(Arg::new("c").short('c').action(ArgAction::Count))
                    .subcommand(
                        Command::new("query")
                            .short_flag('Q')
                            .arg(Arg::new("z").short('z').action(ArgAction::SetTrue))
                            .arg(Arg::new("y").short('y').action(ArgAction::SetTrue)),
                    ),
            )
        };
        // (argv, append?, expected: number of a values, b, c, z, y)
        let cases: Vec<(Vec<&str>, bool, usize, bool, u8, bool, bool)> = vec![
            (vec!["prog", "-SbQz"], false, 0, true, 0, true, false),
            (vec!["prog", "-SccQzy"], false, 0, false, 2, true, true),
            (vec!["prog", "-SaQz"], false, 1, false, 0, true, false),
            (vec!["prog", "-SaQzy"], false, 1, false, 0, true, true),
            (vec!["prog", "-SabQy"], false, 1, true, 0, false, true),
            (vec!["prog", "-SaaQz"], true, 2, false, 0, true, false),
            (vec!["prog", "-SaaQzy"], true, 2, false, 0, true, true),
            (vec!["prog", "-SaQ", "-z"], false, 1, false, 0, true, false),
            (vec!["prog", "-Sa=v", "-Qz"], false, 1, false, 0, true, false),
            (vec!["prog", "-Sb", "-c", "-Qz"], false, 0, true, 1, true, false),
            (vec!["prog", "-SbQz", "-y"], false, 0, true, 0, true, true),
            (vec!["prog", "-Sbc", "-cc", "-Qzy"], false, 0, true, 3, true, true),
        ];
        for (argv, append, na, b, c, z, y) in cases {
            let a2 = argv.clone();
            let r = std::panic::catch_unwind(move || mk(append).try_get_matches_from(a2));
            match r {
                Err(_) => println!("SPEC-REPLAY MISMATCH target=short_cluster_resume case={argv:?}: PANIC (tracking of flag_subcmd_skip)"),
                Ok(Err(e)) => println!("SPEC-REPLAY MISMATCH target=short_cluster_resume case={argv:?}: valid line rejected as {:?}", e.kind()),
                Ok(Ok(m)) => {
                    let s = m.subcommand_matches("sync");
                    let q = s.and_then(|s| s.subcommand_matches("query"));
                    let got = s.map(|s| (s.get_many::<String>("a").map(|v| v.count()).unwrap_or(0), s.get_flag("b"), s.get_count("c")));
                    let gq = q.map(|q| (q.get_flag("z"), q.get_flag("y")));
                    if got != Some((na, b, c)) || gq != Some((z, y)) {
                        println!("SPEC-REPLAY MISMATCH target=short_cluster_resume case={argv:?}: sync (a count, b, c) = {got:?}, query (z, y) = {gq:?}; expected {:?} and {:?}", (na, b, c), (z, y));
                    }
                }
            }
        }
    } else if target == "check_explicit" {
        // C03: a condition `other == value` holds iff ANY value of `other` matches (case-insensitively iff other.ignore_case)
        for ic in [false, true] {
            for (vals, any_json) in [(vec!["json"], true), (vec!["xml"], false), (vec!["json", "xml"], true), (vec!["xml", "json"], true), (vec!["xml", "yaml"], false), (vec!["JSON", "xml"], ic)] {
                let cmd = Command::new("p")
                    .arg(Arg::new("format").long("format").action(ArgAction::Append).ignore_case(ic))
                    .arg(Arg::new("out").long("out").action(ArgAction::Set).required_if_eq("format", "json"))
                    .arg(Arg::new("lvl").long("lvl").action(ArgAction::Set).default_value_if("format", "json", Some("deep")));
                let mut argv = vec!["p".to_string()];
                for v in &vals {
                    argv.push("--format".into());
                    argv.push(v.to_string());
                }
                let r = cmd.clone().try_get_matches_from(argv.clone());
                let missing = matches!(&r, Err(e) if e.kind() == ErrorKind::MissingRequiredArgument);
                if missing != any_json || (r.is_err() && !missing) {
                    println!("SPEC-REPLAY MISMATCH target=check_explicit case=ignore_case={ic} {argv:?}: required_if_eq(format, json) fired={missing}, expected={any_json}");
                }
                argv.extend(["--out".to_string(), "o".to_string()]);
                match cmd.try_get_matches_from(argv.clone()) {
                    Ok(m) => {
                        let lvl = m.get_one::<String>("lvl").cloned();
                        // (default_value_if compares raw values exactly; only the required_if_eq family is documented to honour ignore_case)
                        let exact = vals.iter().any(|v| *v == "json");
                        if (lvl.as_deref() == Some("deep")) != exact {
                            println!("SPEC-REPLAY MISMATCH target=check_explicit case=ignore_case={ic} {argv:?}: default_value_if(format, json) gave {lvl:?}, expected applied={exact}");
                        }
                    }
                    Err(e) => println!("SPEC-REPLAY MISMATCH target=check_explicit case=ignore_case={ic} {argv:?}: rejected {:?}", e.kind()),
                }
            }
        }
    } else if target == "start_custom_arg" {
        // C06/C07: a value from the environment or a default never displaces what was typed, even when the
        // env/default-backed argument overrides the typed one (either declaration direction)
        std::env::set_var("VERIF_SCA_ENV", "true");
        for reverse in [false, true] {
            for via in ["env", "default"] {
                let mut color = Arg::new("color").long("color").action(ArgAction::Set);
                let mut nc = Arg::new("no-color").long("no-color").action(ArgAction::Set);
                nc = if via == "env" { nc.env("VERIF_SCA_ENV") } else { nc.default_value("true") };
                if reverse {
                    color = color.overrides_with("no-color");
                } else {
                    nc = nc.overrides_with("color");
                }
                let cmd = Command::new("p").arg(color).arg(nc);
                match cmd.try_get_matches_from(["p", "--color", "always"]) {
                    Ok(m) => {
                        if m.value_source("color") != Some(crate::parser::ValueSource::CommandLine) || m.get_one::<String>("color").map(|s| s.as_str()) != Some("always") {
                            println!("SPEC-REPLAY MISMATCH target=start_custom_arg case=no-color backed by {via}, overrides declared {}: `--color always` was typed but color is {:?} from {:?}",
                                if reverse { "on color" } else { "on no-color" }, m.get_one::<String>("color"), m.value_source("color"));
                        }
                    }
                    Err(e) if e.kind() == ErrorKind::ArgumentConflict => {}
                    Err(e) => println!("SPEC-REPLAY MISMATCH target=start_custom_arg case=no-color backed by {via}: rejected {:?}", e.kind()),
                }
            }
        }
        // and a later command-line occurrence does remove the overridden one
        let cmd = Command::new("p").arg(Arg::new("a").long("a").action(ArgAction::SetTrue).overrides_with("b")).arg(Arg::new("b").long("b").action(ArgAction::SetTrue));
        match cmd.try_get_matches_from(["p", "--b", "--a"]) {
            Ok(m) if m.get_flag("a") && !m.get_flag("b") => {}
            other => println!("SPEC-REPLAY MISMATCH target=start_custom_arg case=p --b --a with a overriding b: {:?}", other.map(|m| (m.get_flag("a"), m.get_flag("b"))).map_err(|e| e.kind())),
        }
    } else if target == "bin_name_twins" {
        // C11: a definition that was used for earlier parses renders the same help as a fresh one
        let shapes: Vec<(&str, fn() -> Command)> = vec![
            ("plain", || Command::new("ctl").flatten_help(true).arg(Arg::new("v").short('v').action(ArgAction::SetTrue))
                .subcommand(Command::new("status").arg(Arg::new("all").long("all").action(ArgAction::SetTrue)).subcommand(Command::new("deep"))).subcommand(Command::new("reload"))),
            ("subcommand_negates_reqs + required arg", || Command::new("ctl").flatten_help(true).subcommand_negates_reqs(true).arg(Arg::new("input").required(true))
                .subcommand(Command::new("status").arg(Arg::new("all").long("all").action(ArgAction::SetTrue))).subcommand(Command::new("reload"))),
            ("required arg", || Command::new("ctl").flatten_help(true).arg(Arg::new("input").required(true))
                .subcommand(Command::new("status").arg(Arg::new("all").long("all").action(ArgAction::SetTrue))).subcommand(Command::new("reload"))),
            ("args_conflicts_with_subcommands + required arg", || Command::new("ctl").flatten_help(true).args_conflicts_with_subcommands(true).arg(Arg::new("input").required(true))
                .subcommand(Command::new("status").arg(Arg::new("all").long("all").action(ArgAction::SetTrue))).subcommand(Command::new("reload"))),
            ("no_binary_name(true)", || Command::new("ctl").flatten_help(true).no_binary_name(true).arg(Arg::new("v").short('v').action(ArgAction::SetTrue))
                .subcommand(Command::new("status").arg(Arg::new("all").long("all").action(ArgAction::SetTrue))).subcommand(Command::new("reload"))),
        ];
        for (what, mk) in shapes {
            let nb = what.starts_with("no_binary_name");
            let fresh = mk().render_help().to_string();
            let fresh_long = mk().render_long_help().to_string();
            let mut used = mk();
            let h1: Vec<&str> = if nb { vec!["status", "--all"] } else { vec!["ctl", "x", "status", "--all"] };
            let h2: Vec<&str> = if nb { vec!["reload", "extra"] } else { vec!["ctl", "reload", "extra"] };
            let _ = used.try_get_matches_from_mut(h1);
            let _ = used.try_get_matches_from_mut(h2);
            // a failing parse with an unknown long flag builds every subcommand (for the "did you mean" search)
            let _ = used.try_get_matches_from_mut(if nb { vec!["--zzqq"] } else { vec!["ctl", "--zzqq"] });
            // the usage shown by an error inside a subcommand is the same for a reused and a fresh definition
            let probe: Vec<&str> = if nb { vec!["status", "--zzbogus"] } else { vec!["ctl", "x", "status", "--zzbogus"] };
            let mut fresh2 = mk();
            let _ = fresh2.try_get_matches_from_mut(if nb { vec!["--zzqq"] } else { vec!["ctl", "--zzqq"] });
            let e_fresh = mk().try_get_matches_from(probe.clone()).map(|_| String::new()).unwrap_or_else(|e| e.to_string());
            let e_used = fresh2.try_get_matches_from_mut(probe.clone()).map(|_| String::new()).unwrap_or_else(|e| e.to_string());
            if e_fresh != e_used && !nb {
                let diff = e_fresh.lines().zip(e_used.lines()).find(|(a, b)| a != b).map(|(a, b)| format!("{a:?} vs {b:?}")).unwrap_or_default();
                println!("SPEC-REPLAY MISMATCH target=bin_name_twins case={what}: the error for {probe:?} after an earlier failing parse differs from a fresh definition's: {diff}");
            }
            let after = used.render_help().to_string();
            let after_long = used.clone().render_long_help().to_string();
            if fresh != after || fresh_long != after_long {
                let diff = fresh.lines().zip(after.lines()).find(|(a, b)| a != b).map(|(a, b)| format!("{a:?} vs {b:?}")).unwrap_or_default();
                println!("SPEC-REPLAY MISMATCH target=bin_name_twins case={what}: help rendered by a definition used for two earlier parses differs from a fresh one: {diff}");
            }
        }
    } else if target == "inference_candidates" {
        // C08/C09/C10: with infer_subcommands a unique prefix of a name, a visible alias, a hidden alias, a long flag or a long-flag alias selects the subcommand
        let mk = || {
            Command::new("vcs")
                .infer_subcommands(true)
                .subcommand(Command::new("commit").visible_alias("checkin").alias("hiddenci").long_flag("commit-now").visible_long_flag_alias("checkin-now").long_flag_alias("hiddenflag"))
                .subcommand(Command::new("push"))
        };
        for tok in ["commit", "comm", "checkin", "chec", "hiddenci", "hidd", "--commit-now", "--commit-n", "--checkin-now", "--checkin-n", "--hiddenflag", "--hiddenf"] {
            match mk().try_get_matches_from(["vcs", tok]) {
                Ok(m) if m.subcommand_name() == Some("commit") => {}
                Ok(m) => println!("SPEC-REPLAY MISMATCH target=inference_candidates case=vcs {tok}: subcommand {:?}", m.subcommand_name()),
                Err(e) => println!("SPEC-REPLAY MISMATCH target=inference_candidates case=vcs {tok}: rejected as {:?}", e.kind()),
            }
        }
        // an ambiguous prefix selects nothing
        if let Ok(m) = Command::new("vcs").infer_subcommands(true).subcommand(Command::new("commit")).subcommand(Command::new("compare")).try_get_matches_from(["vcs", "com"]) {
            println!("SPEC-REPLAY MISMATCH target=inference_candidates case=vcs com (commit/compare): accepted as {:?}", m.subcommand_name());
        }
    } else if target == "propagate_globals" {
        // C09: a global argument is accepted at every level (also in a user-defined subcommand named `help`), visible from each level
        for (disable_help_sc, sub) in [(false, "run"), (true, "run"), (true, "help")] {
            let cmd = Command::new("prog")
                .disable_help_subcommand(disable_help_sc)
                .arg(Arg::new("verbose").long("verbose").global(true).action(ArgAction::SetTrue))
                .subcommand(Command::new(sub).arg(Arg::new("topic").index(1)).subcommand(Command::new("deep")));
            for argv in [vec!["prog", sub, "--verbose"], vec!["prog", "--verbose", sub], vec!["prog", sub, "deep", "--verbose"], vec!["prog", sub, "x"]] {
                let want = argv.contains(&"--verbose");
                match cmd.clone().try_get_matches_from(argv.clone()) {
                    Ok(m) => {
                        let s1 = m.subcommand_matches(sub);
                        let lvl = (m.get_flag("verbose"), s1.map(|s| s.get_flag("verbose")));
                        if lvl != (want, Some(want)) {
                            println!("SPEC-REPLAY MISMATCH target=propagate_globals case=disable_help_subcommand={disable_help_sc} {argv:?}: verbose seen as {lvl:?}, expected {want} at both levels");
                        }
                    }
                    Err(e) => println!("SPEC-REPLAY MISMATCH target=propagate_globals case=disable_help_subcommand={disable_help_sc} {argv:?}: rejected as {:?}", e.kind()),
                }
            }
        }
        // a subcommand that defines the id itself keeps its own definition
        let cmd = Command::new("prog").arg(Arg::new("v").long("v").global(true).action(ArgAction::SetTrue))
            .subcommand(Command::new("run").arg(Arg::new("v").long("v").action(ArgAction::Set)));
        match cmd.try_get_matches_from(["prog", "run", "--v", "val"]) {
            Ok(m) if m.subcommand_matches("run").and_then(|s| s.get_one::<String>("v").cloned()).as_deref() == Some("val") => {}
            other => println!("SPEC-REPLAY MISMATCH target=propagate_globals case=subcommand redefines the global's id: {:?}", other.map(|_| ()).map_err(|e| e.kind())),
        }
    } else if target == "option_sort_key" {
        // C12: options whose shorts differ only by case and share a display order are both listed, lower case first
        for (a, b, ll, lu) in [('c', 'C', "zzlower-c", "zzupper-c"), ('v', 'V', "zzlower-v", "zzupper-v"), ('z', 'Z', "zzlower-z", "zzupper-z")] {
            for order in [None, Some(3usize)] {
                let mut x = Arg::new("lower").short(a).long(ll).action(ArgAction::SetTrue).help("lower help");
                let mut y = Arg::new("upper").short(b).long(lu).action(ArgAction::SetTrue).help("upper help");
                let mut cmd = Command::new("p").disable_help_flag(true).disable_version_flag(true);
                match order {
                    Some(n) => {
                        x = x.display_order(n);
                        y = y.display_order(n);
                    }
                    None => cmd = cmd.next_display_order(None),
                }
                let mut cmd = cmd.arg(y).arg(x);
                for long in [false, true] {
                    let h = if long { cmd.render_long_help().to_string() } else { cmd.render_help().to_string() };
                    let (pl, pu) = (h.find(&format!("--{ll}")), h.find(&format!("--{lu}")));
                    if pl.is_none() || pu.is_none() || pl > pu {
                        println!("SPEC-REPLAY MISMATCH target=option_sort_key case=-{a}/-{b} display_order={order:?} long_help={long}: lower listed at {pl:?}, upper at {pu:?}");
                    }
                }
            }
        }
    } else if target == "long_flag_subcommand_value" {
        // C02: `--name=value` where name is a long flag subcommand: the value must not vanish
        for (argv, what) in [(vec!["p", "--sync=foo", "bar"], "attached value on a long flag subcommand"), (vec!["p", "--sync", "bar"], "control")] {
            let cmd = Command::new("p").subcommand(Command::new("sync").long_flag("sync").arg(Arg::new("x").num_args(0..).action(ArgAction::Append)));
            match cmd.try_get_matches_from(argv.clone()) {
                Ok(m) => {
                    let x: Vec<String> = m.subcommand_matches("sync").and_then(|s| s.get_many::<String>("x").map(|v| v.cloned().collect())).unwrap_or_default();
                    let consumed = argv.iter().skip(1).all(|t| !t.contains('=') || x.iter().any(|v| t.ends_with(v.as_str())));
                    if !consumed {
                        println!("SPEC-REPLAY MISMATCH target=long_flag_subcommand_value case={what} {argv:?}: accepted as subcommand {:?} with x={x:?}; the token `foo` was neither consumed nor rejected", m.subcommand_name());
                    }
                }
                Err(_) => {}
            }
        }
    } else if target == "long_flag_alias_inference" {
        // C08: with infer_subcommands a subcommand reachable only through long-flag ALIASES takes part in prefix inference
        let mk = || Command::new("p").infer_subcommands(true).subcommand(Command::new("sync").long_flag_alias("temp")).subcommand(Command::new("query").long_flag("test"));
        for (tok, want) in [("--temp", Some("sync")), ("--tem", Some("sync")), ("--test", Some("query")), ("--tes", Some("query")), ("--te", None)] {
            let got = mk().try_get_matches_from(["p", tok]).ok().and_then(|m| m.subcommand_name().map(|s| s.to_string()));
            if got.as_deref() != want {
                println!("SPEC-REPLAY MISMATCH target=long_flag_alias_inference case=alias-only long flag subcommand, token {tok}: resolved to {got:?}, expected {want:?}");
            }
        }
    } else if target == "option_sort_key_kinds" {
        // C12: a short flag and a long-only option whose name equals the short's sort key are both listed
        for (sh, lg) in [('l', "l0"), ('L', "l1"), ('x', "x0")] {
            let mut cmd = Command::new("p").disable_help_flag(true)
                .arg(Arg::new("s").short(sh).action(ArgAction::SetTrue).help("zzshort help").display_order(1))
                .arg(Arg::new("g").long(lg).action(ArgAction::SetTrue).help("zzlong help").display_order(1));
            let h = cmd.render_help().to_string();
            if !h.contains("zzshort help") || !h.contains("zzlong help") {
                println!("SPEC-REPLAY MISMATCH target=option_sort_key_kinds case=short -{sh} and long --{lg} with equal display_order: short listed={}, long listed={}", h.contains("zzshort help"), h.contains("zzlong help"));
            }
        }
    } else if target == "validate_phases" {
        // C03: conflicts are enforced whether or not a subcommand is present / negates requirements
        for negates in [false, true] {
            for with_sub in [false, true] {
                let cmd = Command::new("p").subcommand_negates_reqs(negates)
                    .arg(Arg::new("json").long("json").action(ArgAction::SetTrue).conflicts_with("yaml"))
                    .arg(Arg::new("yaml").long("yaml").action(ArgAction::SetTrue))
                    .arg(Arg::new("only").long("only").action(ArgAction::SetTrue).exclusive(true))
                    .arg(Arg::new("need").long("need").action(ArgAction::Set).required(true))
                    .subcommand(Command::new("init"));
                for (mut argv, want) in [
                    (vec!["p", "--need", "n", "--json", "--yaml"], Some(ErrorKind::ArgumentConflict)),
                    (vec!["p", "--need", "n", "--only", "--json"], Some(ErrorKind::ArgumentConflict)),
                    (vec!["p", "--need", "n", "--json"], None),
                    (vec!["p", "--json"], Some(ErrorKind::MissingRequiredArgument)),
                ] {
                    if with_sub {
                        argv.push("init");
                    }
                    let want = if with_sub && negates && want == Some(ErrorKind::MissingRequiredArgument) { None } else { want };
                    let got = cmd.clone().try_get_matches_from(argv.clone()).err().map(|e| e.kind());
                    if got != want {
                        println!("SPEC-REPLAY MISMATCH target=validate_phases case=subcommand_negates_reqs={negates} {argv:?}: {got:?}, expected {want:?}");
                    }
                }
            }
        }
        // C10: arg_required_else_help fires only when NO argument was given - an option given without a value is an argument
        let cmd = Command::new("p").arg_required_else_help(true)
            .arg(Arg::new("color").long("color").num_args(0..=1).action(ArgAction::Set))
            .arg(Arg::new("flag").long("flag").action(ArgAction::SetTrue))
            .arg(Arg::new("dflt").long("dflt").action(ArgAction::Set).default_value("d"))
            .subcommand(Command::new("sub"));
        for (argv, want) in [
            (vec!["p"], Some(ErrorKind::DisplayHelpOnMissingArgumentOrSubcommand)),
            (vec!["p", "--color"], None),
            (vec!["p", "--color", "red"], None),
            (vec!["p", "--flag"], None),
            (vec!["p", "sub"], None),
        ] {
            let got = cmd.clone().try_get_matches_from(argv.clone()).err().map(|e| e.kind());
            if got != want {
                println!("SPEC-REPLAY MISMATCH target=validate_phases case=arg_required_else_help {argv:?}: {got:?}, expected {want:?}");
            }
        }
        let cmd = Command::new("p").subcommand_required(true).subcommand(Command::new("sub")).arg(Arg::new("flag").long("flag").action(ArgAction::SetTrue));
        for (argv, want) in [(vec!["p"], Some(ErrorKind::MissingSubcommand)), (vec!["p", "--flag"], Some(ErrorKind::MissingSubcommand)), (vec!["p", "sub"], None)] {
            let got = cmd.clone().try_get_matches_from(argv.clone()).err().map(|e| e.kind());
            if got != want {
                println!("SPEC-REPLAY MISMATCH target=validate_phases case=subcommand_required {argv:?}: {got:?}, expected {want:?}");
            }
        }
    } else if target == "requires_owner" {
        // C03/C10: a conditional requirement (`requires_if`) of a transitively required argument is decided
        // by THAT argument's value, never by the value of the argument the walk started from
        for (va, vb) in [("x", "y"), ("q", "x"), ("x", "x"), ("q", "y")] {
            for depth in [1usize, 2] {
                let mut cmd = Command::new("p")
                    .arg(Arg::new("a").long("a").action(ArgAction::Set).requires(if depth == 1 { "b" } else { "m" }))
                    .arg(Arg::new("m").long("m").action(ArgAction::SetTrue).requires("b"))
                    .arg(Arg::new("b").long("b").action(ArgAction::Set).requires_if("x", "c"))
                    .arg(Arg::new("c").long("c").action(ArgAction::SetTrue));
                let mut argv = vec!["p", "--a", va, "--b", vb];
                if depth == 2 {
                    argv.push("--m");
                }
                let want = if vb == "x" { Some(ErrorKind::MissingRequiredArgument) } else { None };
                let got = cmd.try_get_matches_from_mut(argv.clone()).err().map(|e| e.kind());
                if got != want {
                    println!("SPEC-REPLAY MISMATCH target=requires_owner case=requires_if on a transitively required argument (depth {depth}) {argv:?}: {got:?}, expected {want:?}");
                }
            }
        }
        // unconditional chains are still followed to the end, and the start argument's own condition uses its own value
        let cmd = Command::new("p")
            .arg(Arg::new("a").long("a").action(ArgAction::Set).requires_if("x", "b"))
            .arg(Arg::new("b").long("b").action(ArgAction::SetTrue).requires("c"))
            .arg(Arg::new("c").long("c").action(ArgAction::SetTrue));
        for (argv, want) in [
            (vec!["p", "--a", "x"], Some(ErrorKind::MissingRequiredArgument)),
            (vec!["p", "--a", "x", "--b"], Some(ErrorKind::MissingRequiredArgument)),
            (vec!["p", "--a", "x", "--b", "--c"], None),
            (vec!["p", "--a", "y"], None),
            (vec!["p", "--b"], Some(ErrorKind::MissingRequiredArgument)),
        ] {
            let got = cmd.clone().try_get_matches_from(argv.clone()).err().map(|e| e.kind());
            if got != want {
                println!("SPEC-REPLAY MISMATCH target=requires_owner case=chain {argv:?}: {got:?}, expected {want:?}");
            }
        }
    } else if target == "help_subtree_copy" {
        // C12: after build(), the help rendered at the generated `help` level lists exactly the visible subcommands
        for nested in [false, true] {
            let mut vis = Command::new("zzvisible").about("zzvisible about");
            if nested {
                vis = vis.subcommand(Command::new("zzinnerhid").about("zzinnerhid about").hide(true)).subcommand(Command::new("zzinnervis").about("zzinnervis about"));
            }
            let mut cmd = Command::new("p").subcommand(vis).subcommand(Command::new("zzhidden").about("zzhidden about").hide(true));
            cmd.build();
            for long in [false, true] {
                let h = {
                    let hc = cmd.find_subcommand_mut("help").expect("generated help subcommand");
                    if long { hc.render_long_help().to_string() } else { hc.render_help().to_string() }
                };
                if h.contains("zzhidden") || !h.contains("zzvisible") {
                    println!("SPEC-REPLAY MISMATCH target=help_subtree_copy case=help level, nested={nested} long={long}: hidden listed={}, visible listed={}", h.contains("zzhidden"), h.contains("zzvisible"));
                }
                if nested {
                    let h2 = {
                        let hc = cmd.find_subcommand_mut("help").unwrap().find_subcommand_mut("zzvisible").expect("copied subcommand");
                        if long { hc.render_long_help().to_string() } else { hc.render_help().to_string() }
                    };
                    if h2.contains("zzinnerhid") || !h2.contains("zzinnervis") {
                        println!("SPEC-REPLAY MISMATCH target=help_subtree_copy case=help/zzvisible level long={long}: hidden listed={}, visible listed={}", h2.contains("zzinnerhid"), h2.contains("zzinnervis"));
                    }
                }
            }
        }
    } else if target == "env_read" {
        // C06: a set environment variable supplies the value whatever bytes it holds
        #[cfg(unix)]
        {
            use std::os::unix::ffi::OsStrExt as _;
            for (var, bytes) in [("CLAP_VERIF_ENV_READ_0", &b"plain"[..]), ("CLAP_VERIF_ENV_READ_1", &b"/tmp/\xE9"[..]), ("CLAP_VERIF_ENV_READ_2", &b"\xff\xfe"[..])] {
                let val = std::ffi::OsStr::from_bytes(bytes);
                std::env::set_var(var, val);
                let cmd = Command::new("p").arg(Arg::new("path").long("path").env(var).default_value("dflt").value_parser(crate::builder::ValueParser::os_string()));
                let m = cmd.try_get_matches_from(["p"]).expect("parses");
                let src = m.value_source("path");
                let raw = m.get_raw("path").and_then(|mut r| r.next().map(|v| v.to_owned()));
                if src != Some(crate::parser::ValueSource::EnvVariable) || raw.as_deref() != Some(val) {
                    println!("SPEC-REPLAY MISMATCH target=env_read case=variable set to bytes {bytes:?}: source {src:?}, raw {raw:?}");
                }
                std::env::remove_var(var);
            }
        }
    } else if target == "conditional_default_explicit" {
        // C06: default_value_if fires only for an argument that was really used, whatever the definition order
        for other_first in [true, false] {
            for pred_eq in [false, true] {
                let other = Arg::new("other").long("other").action(ArgAction::Set).default_value("d");
                let pred = if pred_eq { crate::builder::ArgPredicate::Equals("d".into()) } else { crate::builder::ArgPredicate::IsPresent };
                let arg = Arg::new("arg").long("arg").action(ArgAction::Set).default_value_if("other", pred, "fired");
                let c = Command::new("p");
                let cmd = if other_first { c.arg(other).arg(arg) } else { c.arg(arg).arg(other) };
                for (argv, want) in [(vec!["p"], None), (vec!["p", "--other", "d"], Some("fired")), (vec!["p", "--arg", "mine", "--other", "d"], Some("mine"))] {
                    let m = cmd.clone().try_get_matches_from(argv.clone()).expect("parses");
                    let got = m.get_one::<String>("arg").map(|s| s.as_str());
                    if got != want {
                        println!("SPEC-REPLAY MISMATCH target=conditional_default_explicit case=other_first={other_first} equals={pred_eq} {argv:?}: arg = {got:?}, expected {want:?}");
                    }
                }
            }
        }
    } else if target == "flag_subcommand_aliases_to" {
        // C09/C08: a flag subcommand is entered through its flag or any of its flag aliases - also when it has only aliases
        for with_primary in [false, true] {
            let mut gc = Command::new("gc").long_flag_alias("collect").visible_long_flag_alias("sweep").short_flag_alias('g').visible_short_flag_alias('G')
                .arg(Arg::new("deep").long("deep").action(ArgAction::SetTrue));
            if with_primary {
                gc = gc.long_flag("gc").short_flag('c');
            }
            let cmd = Command::new("p").subcommand(gc).subcommand(Command::new("other").long_flag("other"));
            let mut toks = vec!["--collect", "--sweep", "-g", "-G"];
            if with_primary {
                toks.push("--gc");
                toks.push("-c");
            }
            for tok in toks {
                let got = cmd.clone().try_get_matches_from(["p", tok, "--deep"]).ok().and_then(|m| m.subcommand().map(|(n, sm)| (n.to_owned(), sm.get_flag("deep"))));
                if got != Some(("gc".to_owned(), true)) {
                    println!("SPEC-REPLAY MISMATCH target=flag_subcommand_aliases_to case=primary flag declared={with_primary} token {tok}: dispatched to {got:?}, expected gc with --deep");
                }
            }
            let got = cmd.clone().try_get_matches_from(["p", "--nope"]).err().map(|e| e.kind());
            if got != Some(ErrorKind::UnknownArgument) {
                println!("SPEC-REPLAY MISMATCH target=flag_subcommand_aliases_to case=unknown long flag: {got:?}");
            }
        }
    } else if target == "subcommand_dispatch_guard" {
        // C09: a value of a multi-value option / positional that spells a subcommand name stays a value (unless subcommand_precedence_over_arg)
        for prec in [false, true] {
            let cmd = Command::new("p").subcommand_precedence_over_arg(prec)
                .arg(Arg::new("opt").long("opt").num_args(1..).action(ArgAction::Append))
                .arg(Arg::new("files").index(1).num_args(1..).action(ArgAction::Append))
                .subcommand(Command::new("sub").alias("sb"));
            for (argv, id, vals_no_prec) in [
                (vec!["p", "a", "b", "sub"], "files", vec!["a", "b", "sub"]),
                (vec!["p", "a", "sb"], "files", vec!["a", "sb"]),
                (vec!["p", "--opt", "x", "sub"], "opt", vec!["x", "sub"]),
            ] {
                match cmd.clone().try_get_matches_from(argv.clone()) {
                    Ok(m) => {
                        let got: Vec<String> = m.get_many::<String>(id).map(|v| v.cloned().collect()).unwrap_or_default();
                        let ok = if prec { m.subcommand_name() == Some("sub") && got.len() == vals_no_prec.len() - 1 } else { m.subcommand_name().is_none() && got == vals_no_prec };
                        if !ok {
                            println!("SPEC-REPLAY MISMATCH target=subcommand_dispatch_guard case=subcommand_precedence_over_arg={prec} {argv:?}: subcommand {:?}, {id}={got:?}", m.subcommand_name());
                        }
                    }
                    Err(e) => println!("SPEC-REPLAY MISMATCH target=subcommand_dispatch_guard case=subcommand_precedence_over_arg={prec} {argv:?}: rejected as {:?}", e.kind()),
                }
            }
            // between arguments a subcommand name is a subcommand
            match cmd.clone().try_get_matches_from(["p", "sub"]) {
                Ok(m) if m.subcommand_name() == Some("sub") => {}
                other => println!("SPEC-REPLAY MISMATCH target=subcommand_dispatch_guard case=p sub: {:?}", other.map(|m| m.subcommand_name().map(|s| s.to_string())).map_err(|e| e.kind())),
            }
        }
    } else if target == "auto_help_template" {
        // C12: visible subcommands are listed even when no argument is visible in the mode being rendered
        for shape in ["no args at all", "only a hide_short_help option", "only a hidden positional"] {
            let mut cmd = Command::new("p").disable_help_flag(true).disable_help_subcommand(true).subcommand(Command::new("zzsub").about("zzsub about")).subcommand(Command::new("zzother"));
            cmd = match shape {
                "only a hide_short_help option" => cmd.arg(Arg::new("o").long("zzopt").action(ArgAction::SetTrue).hide_short_help(true)),
                "only a hidden positional" => cmd.arg(Arg::new("pos").hide(true)),
                _ => cmd,
            };
            for long in [false, true] {
                let h = if long { cmd.render_long_help().to_string() } else { cmd.render_help().to_string() };
                if !h.contains("zzsub") || !h.contains("zzother") {
                    println!("SPEC-REPLAY MISMATCH target=auto_help_template case={shape}, long_help={long}: visible subcommands are not listed: {:?}", h);
                }
            }
        }
        // and a command with nothing listable renders just its usage
        let h = Command::new("bare").disable_help_flag(true).about("zzabout").render_help().to_string();
        if !h.contains("Usage:") || !h.contains("zzabout") || h.contains("Options:") || h.contains("Commands:") {
            println!("SPEC-REPLAY MISMATCH target=auto_help_template case=bare command: {:?}", h);
        }
    } else if target == "range_sugar" {
        // C04: value_parser(<range>) accepts exactly the range's own members, for each kind of range
        let parse = |vp: crate::builder::ValueParser, v: &str| -> Option<i64> {
            Command::new("p").arg(Arg::new("n").long("n").allow_negative_numbers(true).value_parser(vp).action(ArgAction::Set))
                .try_get_matches_from(["p", "--n", v]).ok().and_then(|m| m.get_one::<i64>("n").copied())
        };
        let cases: Vec<(&str, fn() -> crate::builder::ValueParser, i64, i64)> = vec![
            ("10..20", || (10..20).into(), 10, 19),
            ("10..=20", || (10..=20).into(), 10, 20),
            ("10..", || (10..).into(), 10, i64::MAX),
            ("..20", || (..20).into(), i64::MIN, 19),
            ("..=20", || (..=20).into(), i64::MIN, 20),
            ("..", || (..).into(), i64::MIN, i64::MAX),
        ];
        for (what, mk, lo, hi) in cases {
            for v in [lo, hi, lo.saturating_sub(1), hi.saturating_add(1), 15] {
                let inside = v >= lo && v <= hi;
                let got = parse(mk(), &v.to_string());
                if got.is_some() != inside || (inside && got != Some(v)) {
                    println!("SPEC-REPLAY MISMATCH target=range_sugar case=value_parser({what}) on {v}: {got:?}, expected {}", if inside { "accepted" } else { "rejected" });
                }
            }
        }
    } else if target == "styled_wrap_trim" {
        // C20: wrapping keeps the author's leading whitespace / blank lines; only the end is trimmed; no line exceeds the width
        for (text, width) in [("  foo bar", 6usize), ("\n\nfoo bar baz", 7), ("    indented text here", 12), ("plain words only", 8), ("tail   ", 10)] {
            let mut cmd = Command::new("p").disable_help_flag(true).about(text).help_template("X\n{about}").term_width(width);
            let h = cmd.render_help().to_string();
            let body = h.strip_prefix("X\n").unwrap_or(&h);
            let lead_in: String = text.chars().take_while(|c| c.is_whitespace()).collect();
            let lead_out: String = body.chars().take_while(|c| c.is_whitespace()).collect();
            let too_wide = body.lines().any(|l| l.trim_end().chars().count() > width && l.trim().contains(' '));
            let words_in: Vec<&str> = text.split_whitespace().collect();
            let words_out: Vec<&str> = body.split_whitespace().collect();
            if lead_in != lead_out || too_wide || words_in != words_out {
                println!("SPEC-REPLAY MISMATCH target=styled_wrap_trim case=about {text:?} at width {width}: rendered {body:?} (leading whitespace {lead_out:?}, expected {lead_in:?})");
            }
        }
    } else if target == "short_cluster_skip_consumed" {
        // C01/C02: a cluster revisited by a subcommand whose positional accepts hyphen values
        let mk = || Command::new("prog")
            .arg(Arg::new("v").short('v').action(ArgAction::SetTrue))
            .subcommand(Command::new("sub").short_flag('S')
                .arg(Arg::new("a").short('a').action(ArgAction::SetTrue))
                .arg(Arg::new("rest").num_args(0..).allow_hyphen_values(true).action(ArgAction::Append)));
        for argv in [vec!["prog", "-vSx", "-a"], vec!["prog", "-vSa", "-a"], vec!["prog", "-vS", "-a"], vec!["prog", "-v", "-S", "-a"]] {
            let a2 = argv.clone();
            match std::panic::catch_unwind(move || mk().try_get_matches_from(a2)) {
                Err(_) => println!("SPEC-REPLAY MISMATCH target=short_cluster_skip_consumed case=hyphen-accepting positional in the flag subcommand {argv:?}: PANIC (tracking of flag_subcmd_skip)"),
                Ok(Err(_)) => {}
                Ok(Ok(m)) => {
                    let s = m.subcommand_matches("sub");
                    let rest: Vec<String> = s.and_then(|s| s.get_many::<String>("rest").map(|v| v.cloned().collect())).unwrap_or_default();
                    // a consumed flag must not come back as a value, and `-a` after the cluster must be seen
                    if rest.iter().any(|r| r.contains('S') || r.contains('v')) || !(s.map(|s| s.get_flag("a")).unwrap_or(false) || rest.iter().any(|r| r == "-a")) {
                        println!("SPEC-REPLAY MISMATCH target=short_cluster_skip_consumed case=hyphen-accepting positional in the flag subcommand {argv:?}: v={} sub a={:?} rest={rest:?}", m.get_flag("v"), s.map(|s| s.get_flag("a")));
                    }
                }
            }
        }
    } else if target == "ignore_errors_recovery" {
        // C01/C06: with ignore_errors every input yields matches, and those matches carry env values and defaults
        // wherever the error was raised (in the middle of the line or on the last option's value)
        std::env::set_var("VERIF_IER_ENV", "from-env");
        let mk = || Command::new("prog").ignore_errors(true)
            .arg(Arg::new("num").long("num").value_parser(crate::value_parser!(u8)).action(ArgAction::Set))
            .arg(Arg::new("name").long("name").action(ArgAction::Set).default_value("dflt"))
            .arg(Arg::new("envd").long("envd").action(ArgAction::Set).env("VERIF_IER_ENV"));
        for argv in [vec!["prog", "--num", "abc"], vec!["prog", "--num", "abc", "--bogus"], vec!["prog", "--bogus"], vec!["prog", "--num"], vec!["prog", "--num", "7"], vec!["prog"]] {
            match mk().try_get_matches_from(argv.clone()) {
                Ok(m) => {
                    let (name, envd) = (m.get_one::<String>("name").cloned(), m.get_one::<String>("envd").cloned());
                    if name.as_deref() != Some("dflt") || envd.as_deref() != Some("from-env") {
                        println!("SPEC-REPLAY MISMATCH target=ignore_errors_recovery case=ignore_errors {argv:?}: name={name:?} (default dflt) envd={envd:?} (env from-env)");
                    }
                }
                Err(e) => println!("SPEC-REPLAY MISMATCH target=ignore_errors_recovery case=ignore_errors {argv:?}: error {:?} although errors are ignored", e.kind()),
            }
        }
    } else if target == "match_arg_error" {
        // C10: the error kind names a rule the input really breaks
        for acws in [false, true] {
            for prior in [false, true] {
                for tok in ["buidl", "qqqq"] {
                    let cmd = Command::new("p")
                        .args_conflicts_with_subcommands(acws)
                        .arg(Arg::new("flag").long("flag").action(ArgAction::SetTrue))
                        .subcommand(Command::new("build"))
                        .subcommand(Command::new("test"));
                    let mut argv = vec!["p"];
                    if prior {
                        argv.push("--flag");
                    }
                    argv.push(tok);
                    match cmd.try_get_matches_from(argv.clone()) {
                        Ok(_) => println!("SPEC-REPLAY MISMATCH target=match_arg_error case={argv:?}: unknown token accepted"),
                        Err(e) => {
                            let k = e.kind();
                            if k == ErrorKind::ArgumentConflict && !(acws && prior) {
                                println!("SPEC-REPLAY MISMATCH target=match_arg_error case={argv:?} args_conflicts_with_subcommands={acws}: reported ArgumentConflict although no argument precedes the token");
                            }
                            if !(acws && prior) && tok == "buidl" && k != ErrorKind::InvalidSubcommand {
                                println!("SPEC-REPLAY MISMATCH target=match_arg_error case={argv:?} args_conflicts_with_subcommands={acws}: a mistyped subcommand is reported as {k:?}, expected InvalidSubcommand");
                            }
                        }
                    }
                }
            }
        }
    } else if target == "validate_exclusive" {
        // C03: an exclusive argument is present alone.  a, b exclusive; c ordinary; d has a default.
        for bits in 0..8u8 {
            let (a, b, c) = (bits & 1 != 0, bits & 2 != 0, bits & 4 != 0);
            let cmd = Command::new("p")
                .arg(Arg::new("a").long("a").action(ArgAction::SetTrue).exclusive(true))
                .arg(Arg::new("b").long("b").action(ArgAction::Set).exclusive(true))
                .arg(Arg::new("c").long("c").action(ArgAction::SetTrue))
                .arg(Arg::new("d").long("d").action(ArgAction::Set).default_value("dflt"));
            let mut argv = vec!["p"];
            if a {
                argv.push("--a");
            }
            if b {
                argv.extend(["--b", "x"]);
            }
            if c {
                argv.push("--c");
            }
            let n = a as u8 + b as u8 + c as u8;
            let expect_conflict = (a || b) && n > 1;
            match cmd.try_get_matches_from(argv.clone()) {
                Ok(_) if expect_conflict => println!("SPEC-REPLAY MISMATCH target=validate_exclusive case={argv:?}: accepted although an exclusive argument is not alone"),
                Err(e) if !expect_conflict => println!("SPEC-REPLAY MISMATCH target=validate_exclusive case={argv:?}: rejected as {:?}", e.kind()),
                Err(e) if e.kind() != ErrorKind::ArgumentConflict => println!("SPEC-REPLAY MISMATCH target=validate_exclusive case={argv:?}: rejected as {:?}, expected ArgumentConflict", e.kind()),
                _ => {}
            }
        }
    } else if target == "value_sources" {
        // C06/C03: a value that came from a (conditional) default is reported as a default and never
        // satisfies a requirement
        let cmd = || {
            Command::new("p")
                .arg(Arg::new("mode").long("mode").action(ArgAction::Set))
                .arg(Arg::new("threads").long("threads").action(ArgAction::Set).default_value_if("mode", "fast", "8"))
                .arg(Arg::new("plain").long("plain").action(ArgAction::Set).default_value("d"))
                .arg(Arg::new("config").long("config").action(ArgAction::Set).required_unless_present("threads"))
        };
        match cmd().try_get_matches_from(["p", "--mode", "fast", "--config", "c"]) {
            Ok(m) => {
                if m.value_source("threads") != Some(crate::parser::ValueSource::DefaultValue) || m.value_source("plain") != Some(crate::parser::ValueSource::DefaultValue) {
                    println!("SPEC-REPLAY MISMATCH target=value_sources case=default_value_if fired: sources threads={:?} plain={:?}, expected DefaultValue", m.value_source("threads"), m.value_source("plain"));
                }
            }
            Err(e) => println!("SPEC-REPLAY MISMATCH target=value_sources case=valid line rejected: {:?}", e.kind()),
        }
        if cmd().try_get_matches_from(["p", "--mode", "fast"]).is_ok() {
            println!("SPEC-REPLAY MISMATCH target=value_sources case=--mode fast without --config: accepted, a conditional default satisfied required_unless_present");
        }
    } else if target == "phase_order" {
        // C06: command line > environment > default, also on the error-ignoring recovery path
        #[cfg(feature = "env")]
        {
            std::env::set_var("VERIF_SPEC_ENV_VAR", "from-env");
            for ignore in [false, true] {
                for bogus in [false, true] {
                    for cli in [false, true] {
                        let cmd = Command::new("p").ignore_errors(ignore).arg(
                            Arg::new("o").long("o").env("VERIF_SPEC_ENV_VAR").default_value("from-default").action(ArgAction::Set),
                        );
                        let mut argv = vec!["p"];
                        if cli {
                            argv.extend(["--o", "from-cli"]);
                        }
                        if bogus {
                            argv.push("--bogus");
                        }
                        let (want, want_src) = if cli { ("from-cli", crate::parser::ValueSource::CommandLine) } else { ("from-env", crate::parser::ValueSource::EnvVariable) };
                        match cmd.try_get_matches_from(argv) {
                            Ok(m) => {
                                let got = m.get_one::<String>("o").cloned();
                                if got.as_deref() != Some(want) || m.value_source("o") != Some(want_src) {
                                    println!("SPEC-REPLAY MISMATCH target=phase_order case=ignore_errors={ignore} unknown_flag={bogus} on_cli={cli}: value {got:?} source {:?}, expected {want:?} from {want_src:?}", m.value_source("o"));
                                }
                            }
                            Err(e) => {
                                if !(bogus && !ignore) {
                                    println!("SPEC-REPLAY MISMATCH target=phase_order case=ignore_errors={ignore} unknown_flag={bogus} on_cli={cli}: unexpected error {:?}", e.kind());
                                }
                            }
                        }
                    }
                }
            }
        }
    } else if target == "line_wrapper_step" {
        // C20 through the crate's own wrap(): indented lines of 1..4 short words, widths 1..9.
        // A produced line wider than the width must hold a single word; non-space characters are kept.
        let words = ["a", "bb", "ccc"];
        let indents = ["", " ", "  ", "    "];
        let mut n = 0usize;
        for ind in indents {
            for k in 1..=4usize {
                let combos = 3usize.pow(k as u32);
                for c in 0..combos {
                    let mut text = String::from(ind);
                    let mut cc = c;
                    for j in 0..k {
                        if j > 0 {
                            text.push(' ');
                        }
                        text.push_str(words[cc % 3]);
                        cc /= 3;
                    }
                    for w in 1..=9usize {
                        n += 1;
                        let out = crate::output::textwrap::wrap(&text, w);
                        let keep = |s: &str| s.chars().filter(|c| *c != ' ' && *c != '\n').collect::<String>();
                        if keep(&out) != keep(&text) {
                            println!("SPEC-REPLAY MISMATCH target=line_wrapper_step case=wrap({text:?}, {w}) = {out:?}: non-space characters changed");
                        }
                        for line in out.split('\n') {
                            let line = line.trim_end();
                            if crate::output::display_width(line) > w && line.trim().contains(' ') {
                                println!("SPEC-REPLAY MISMATCH target=line_wrapper_step case=wrap({text:?}, {w}) = {out:?}: line {line:?} is wider than {w} and holds several words");
                            }
                        }
                    }
                }
            }
        }
        let _ = n;
    } else if target == "verify_num_args" || target == "needs_more_vals" {
        // a delimiter does not change how many ARGV TOKENS an option takes
        for (argv, want_opt, want_pos) in [
            (vec!["p", "-o", "a,b", "c", "d", "x"], vec!["a", "b", "c", "d"], vec!["x"]),
            (vec!["p", "-o", "a", "b,c", "d", "x"], vec!["a", "b", "c", "d"], vec!["x"]),
            (vec!["p", "-o", "a,b,c", "x"], vec!["a", "b", "c", "x"], vec![]),
        ] {
            let cmd = Command::new("p")
                .arg(Arg::new("o").short('o').num_args(1..=3).value_delimiter(',').action(ArgAction::Set))
                .arg(Arg::new("rest").num_args(0..).action(ArgAction::Append));
            match cmd.try_get_matches_from(argv.clone()) {
                Ok(m) => {
                    let o: Vec<String> = m.get_many::<String>("o").map(|v| v.cloned().collect()).unwrap_or_default();
                    let r: Vec<String> = m.get_many::<String>("rest").map(|v| v.cloned().collect()).unwrap_or_default();
                    if o != want_opt || r != want_pos {
                        println!("SPEC-REPLAY MISMATCH target={target} case={argv:?} with num_args(1..=3) and delimiter ',': option={o:?} positional={r:?}, expected {want_opt:?} / {want_pos:?}");
                    }
                }
                Err(e) => println!("SPEC-REPLAY MISMATCH target={target} case={argv:?}: rejected as {:?}", e.kind()),
            }
        }
        // option --o with num_args(lo..=hi), k values given, then end of line
        for lo in 0..4usize {
            for hi in lo..4usize {
                if hi == 0 {
                    continue;
                }
                for k in 0..6usize {
                    let cmd = Command::new("p")
                        .arg(Arg::new("o").long("o").num_args(lo..=hi).action(ArgAction::Set))
                        .arg(Arg::new("rest").num_args(0..).action(ArgAction::Append));
                    let mut argv = vec!["p".to_string(), "--o".to_string()];
                    for i in 0..k {
                        argv.push(format!("v{i}"));
                    }
                    let r = cmd.try_get_matches_from(argv);
                    // grammar: --o takes values up to hi; the rest go to the positional
                    let taken = k.min(hi);
                    let expect_kind = if lo > 0 && taken == 0 {
                        Some(ErrorKind::InvalidValue)
                    } else if lo == hi && taken != lo {
                        Some(ErrorKind::WrongNumberOfValues)
                    } else if taken < lo {
                        Some(ErrorKind::TooFewValues)
                    } else {
                        None
                    };
                    match (&r, expect_kind) {
                        (Ok(m), None) => {
                            let got = m.get_many::<String>("o").map(|v| v.count()).unwrap_or(0);
                            let rest = m.get_many::<String>("rest").map(|v| v.count()).unwrap_or(0);
                            if got != taken || rest != k - taken {
                                println!("SPEC-REPLAY MISMATCH target={target} case=num_args({lo}..={hi}) with {k} values: option got {got} (expected {taken}), positional got {rest}");
                            }
                        }
                        (Err(e), Some(kind)) if e.kind() == kind => {}
                        (Ok(_), Some(kind)) => println!("SPEC-REPLAY MISMATCH target={target} case=num_args({lo}..={hi}) with {k} values: accepted, expected {kind:?}"),
                        (Err(e), exp) => println!("SPEC-REPLAY MISMATCH target={target} case=num_args({lo}..={hi}) with {k} values: rejected as {:?}, expected {exp:?}", e.kind()),
                    }
                }
            }
        }
    }
}
