// C04: typed values are exactly what the value parser's language admits.
//
// Ranged integer parsers: CONCRETE boundary literals x SYMBOLIC range (any 64-bit lo/hi, any
// of the 9 bound shapes) x each target width.  The message side of the error path is cut by
// stubs (listed in the registry / evidence); the decision (parse, bounds test, narrowing)
// runs as compiled.
use crate::builder::{RangedI64ValueParser, RangedU64ValueParser, TypedValueParser};
use crate::error::{ErrorFormatter, ErrorKind};
use crate::Command;
use std::ffi::OsStr;
use std::ops::Bound;

// ---- stubs (message construction only)
pub(crate) fn stub_format(_args: std::fmt::Arguments<'_>) -> String {
    String::new()
}
pub(crate) fn stub_with_cmd<F: ErrorFormatter>(e: crate::error::Error<F>, _cmd: &Command) -> crate::error::Error<F> {
    e
}
pub(crate) fn stub_value_validation<F: ErrorFormatter>(
    _arg: String,
    _val: String,
    err: Box<dyn std::error::Error + Send + Sync>,
) -> crate::error::Error<F> {
    std::mem::forget(err);
    crate::error::Error::new(ErrorKind::ValueValidation)
}
pub(crate) fn stub_format_bounds_i64<T: TryFrom<i64> + Clone + Send + Sync>(_p: &RangedI64ValueParser<T>) -> String {
    String::new()
}
pub(crate) fn stub_format_bounds_u64<T: TryFrom<u64> + Clone + Send + Sync>(_p: &RangedU64ValueParser<T>) -> String {
    String::new()
}

fn any_bound_i64() -> (Bound<i64>, u8, i64) {
    let k: u8 = kani::any();
    kani::assume(k < 3);
    let v: i64 = kani::any();
    (
        match k {
            0 => Bound::Included(v),
            1 => Bound::Excluded(v),
            _ => Bound::Unbounded,
        },
        k,
        v,
    )
}

fn in_range_i128(n: i128, sk: u8, lo: i128, ek: u8, hi: i128) -> bool {
    let lo_ok = match sk {
        0 => n >= lo,
        1 => n > lo,
        _ => true,
    };
    let hi_ok = match ek {
        0 => n <= hi,
        1 => n < hi,
        _ => true,
    };
    lo_ok && hi_ok
}

/// One literal against a parser: `n` is the integer the literal denotes (None = malformed).
fn check_i64<T>(p: &RangedI64ValueParser<T>, cmd: &Command, lit: &str, n: Option<i128>, sk: u8, lo: i64, ek: u8, hi: i64, tmin: i128, tmax: i128) -> bool
where
    T: TryFrom<i64> + Clone + Send + Sync + 'static + Into<i128>,
    <T as TryFrom<i64>>::Error: Send + Sync + 'static + std::error::Error + ToString,
{
    let r = p.parse_ref(cmd, None, OsStr::new(lit));
    let expect_ok = match n {
        Some(n) => {
            n >= i64::MIN as i128 && n <= i64::MAX as i128 && in_range_i128(n, sk, lo as i128, ek, hi as i128) && n >= tmin && n <= tmax
        }
        None => false,
    };
    match r {
        Ok(v) => {
            assert!(expect_ok);
            let v: i128 = v.into();
            assert!(Some(v) == n);
        }
        Err(e) => {
            assert!(!expect_ok);
            assert!(e.kind() == ErrorKind::ValueValidation);
            std::mem::forget(e);
        }
    }
    expect_ok
}

macro_rules! ranged_i64 {
    ($name:ident, $unwind:expr, $t:ty, [$(($lit:expr, $n:expr)),+]) => {
        #[kani::proof]
        #[kani::unwind($unwind)]
        #[kani::stub(std::fmt::format, stub_format)]
        #[kani::stub(crate::error::Error::with_cmd, stub_with_cmd)]
        #[kani::stub(crate::error::Error::value_validation, stub_value_validation)]
        #[kani::stub(crate::builder::value_parser::RangedI64ValueParser::format_bounds, stub_format_bounds_i64)]
        fn $name() {
            let cmd = Command::new("p");
            let (s, sk, lo) = any_bound_i64();
            let (e, ek, hi) = any_bound_i64();
            let p = RangedI64ValueParser::<$t>::from((s, e));
            let mut any_ok = false;
            let mut any_err = false;
            $(
                let ok = check_i64::<$t>(&p, &cmd, $lit, $n, sk, lo, ek, hi, <$t>::MIN as i128, <$t>::MAX as i128);
                any_ok |= ok;
                any_err |= !ok;
            )+
            let possible = false $(|| { let n: Option<i128> = $n; match n { Some(n) => n >= <$t>::MIN as i128 && n <= <$t>::MAX as i128, None => false } })+;
            kani::cover!(any_ok || !possible, "some literal accepted (when one fits the target type)");
            kani::cover!(any_err, "some literal rejected");
            kani::cover!(sk == 1 && ek == 1, "exclusive bounds");
            std::mem::forget(cmd);
        }
    };
}


fn any_bound_u64() -> (Bound<u64>, u8, u64) {
    let k: u8 = kani::any();
    kani::assume(k < 3);
    let v: u64 = kani::any();
    (
        match k {
            0 => Bound::Included(v),
            1 => Bound::Excluded(v),
            _ => Bound::Unbounded,
        },
        k,
        v,
    )
}

macro_rules! ranged_u64 {
    ($name:ident, $unwind:expr, $t:ty, [$(($lit:expr, $n:expr)),+]) => {
        #[kani::proof]
        #[kani::unwind($unwind)]
        #[kani::stub(std::fmt::format, stub_format)]
        #[kani::stub(crate::error::Error::with_cmd, stub_with_cmd)]
        #[kani::stub(crate::error::Error::value_validation, stub_value_validation)]
        #[kani::stub(crate::builder::value_parser::RangedU64ValueParser::format_bounds, stub_format_bounds_u64)]
        fn $name() {
            let cmd = Command::new("p");
            let (s, sk, lo) = any_bound_u64();
            let (e, ek, hi) = any_bound_u64();
            let p = RangedU64ValueParser::<$t>::from((s, e));
            let mut any_ok = false;
            let mut any_err = false;
            $(
                let n: Option<i128> = $n;
                let r = p.parse_ref(&cmd, None, OsStr::new($lit));
                let expect_ok = match n {
                    Some(n) => n >= 0 && n <= u64::MAX as i128 && in_range_i128(n, sk, lo as i128, ek, hi as i128)
                        && n <= <$t>::MAX as i128,
                    None => false,
                };
                match r {
                    Ok(v) => {
                        assert!(expect_ok);
                        assert!(Some(v as i128) == n);
                    }
                    Err(e) => {
                        assert!(!expect_ok);
                        assert!(e.kind() == ErrorKind::ValueValidation);
                        std::mem::forget(e);
                    }
                }
                any_ok |= expect_ok;
                any_err |= !expect_ok;
            )+
            let possible = false $(|| { let n: Option<i128> = $n; match n { Some(n) => n >= 0 && n <= <$t>::MAX as i128, None => false } })+;
            kani::cover!(any_ok || !possible, "some literal accepted (when one fits the target type)");
            kani::cover!(any_err, "some literal rejected");
            kani::cover!(sk == 1 && ek == 1, "exclusive bounds");
            std::mem::forget(cmd);
        }
    };
}

include!(concat!(env!("CLAP_VERIF_DIR"), "/c04_ranged.rs"));

#[kani::proof]
#[kani::unwind(6)]
#[kani::stub(std::fmt::format, stub_format)]
#[kani::stub(crate::error::Error::with_cmd, stub_with_cmd)]
#[kani::stub(crate::error::Error::value_validation, stub_value_validation)]
#[kani::stub(crate::builder::value_parser::RangedI64ValueParser::format_bounds, stub_format_bounds_i64)]
fn twin_c04_ranged_must_fail() {
    let cmd = Command::new("p");
    let (s, sk, lo) = any_bound_i64();
    let (e, ek, hi) = any_bound_i64();
    let p = RangedI64ValueParser::<i8>::from((s, e));
    let ok = check_i64::<i8>(&p, &cmd, "127", Some(127), sk, lo, ek, hi, -128, 127);
    kani::assume(ok);
    std::mem::forget(cmd);
    assert!(false, "twin: reachable end of harness");
}

// ------------------------------------------------------------------ booleans

use crate::builder::{BoolValueParser, BoolishValueParser, FalseyValueParser, PossibleValue};

/// std's contract: on ASCII-only input `str::to_lowercase` equals `to_ascii_lowercase`.  The harness
/// inputs are ASCII-only; the full function walks std's Unicode tables (final-sigma handling), which
/// CBMC cannot finish (1500 s timeout measured).
pub(crate) fn stub_to_lowercase(s: &str) -> String {
    s.to_ascii_lowercase()
}

/// The non-UTF-8 error path renders a usage string; the message is not the subject here.
pub(crate) fn stub_usage<'cmd>(_u: &crate::output::Usage<'cmd>, _used: &[crate::Id]) -> Option<crate::builder::StyledStr>
where
    'cmd: 'cmd,
{
    None
}

pub(crate) fn stub_invalid_value<F: ErrorFormatter>(_cmd: &Command, _bad: String, _good: &[String], _arg: String) -> crate::error::Error<F> {
    crate::error::Error::new(ErrorKind::InvalidValue)
}

/// Concrete letters, symbolic ASCII case per letter.  Returns (bytes, all_lower).
fn case_masked<const L: usize>(lit: &[u8; L]) -> ([u8; L], bool) {
    let mut out = *lit;
    let mut all_lower = true;
    let mut i = 0;
    while i < L {
        if lit[i] >= b'a' && lit[i] <= b'z' {
            let upper: bool = kani::any();
            if upper {
                out[i] = lit[i] - 32;
                all_lower = false;
            }
        }
        i += 1;
    }
    (out, all_lower)
}

fn to_str<const L: usize>(b: &[u8; L]) -> &str {
    match std::str::from_utf8(b) {
        Ok(s) => s,
        Err(_) => {
            kani::assume(false);
            ""
        }
    }
}

/// `expect`: what the documented TRUE/FALSE literal lists say for the lower-cased word.
/// WHICH = 0: util::str_to_bool (the decision kernel); 1: BoolishValueParser; 2: FalseyValueParser.
fn boolish<const L: usize, const WHICH: u8>(lit: &[u8; L], expect: Option<bool>) {
    let (b, all_lower) = case_masked(lit);
    let s = to_str(&b);
    if WHICH == 0 {
        assert!(crate::util::str_to_bool(s) == expect);
    } else if WHICH == 1 {
        let cmd = Command::new("p");
        match BoolishValueParser::new().parse_ref(&cmd, None, OsStr::new(s)) {
            Ok(v) => assert!(Some(v) == expect),
            Err(e) => {
                assert!(expect.is_none());
                assert!(e.kind() == ErrorKind::ValueValidation);
                std::mem::forget(e);
            }
        }
        std::mem::forget(cmd);
    } else {
        let cmd = Command::new("p");
        match FalseyValueParser::new().parse_ref(&cmd, None, OsStr::new(s)) {
            Ok(v) => assert!(v == if L == 0 { false } else { expect.unwrap_or(true) }),
            Err(_) => assert!(false),
        }
        std::mem::forget(cmd);
    }
    kani::cover!(!all_lower || L == 0 || !(lit[0] >= b'a' && lit[0] <= b'z'), "some letter upper-cased");
    kani::cover!(all_lower, "all lower case");
}

/// BoolValueParser accepts exactly `true` and `false`, case-sensitively.
fn bool_exact<const L: usize>(lit: &[u8; L], lower_value: Option<bool>) {
    let cmd = Command::new("p");
    let (b, all_lower) = case_masked(lit);
    let s = to_str(&b);
    let expect = if all_lower { lower_value } else { None };
    match BoolValueParser::new().parse_ref(&cmd, None, OsStr::new(s)) {
        Ok(v) => assert!(Some(v) == expect),
        Err(e) => {
            assert!(expect.is_none());
            assert!(e.kind() == ErrorKind::InvalidValue);
            std::mem::forget(e);
        }
    }
    let mut has_letter = false;
    let mut i = 0;
    while i < L {
        if lit[i] >= b'a' && lit[i] <= b'z' {
            has_letter = true;
        }
        i += 1;
    }
    kani::cover!(!all_lower || !has_letter, "some letter upper-cased (when the word has letters)");
    kani::cover!(all_lower, "all lower case");
    std::mem::forget(cmd);
}

macro_rules! boolish_h {
    ($name:ident, $which:expr, $lit:expr, $exp:expr) => {
        #[kani::proof]
        #[kani::unwind(8)]
        #[kani::stub(std::fmt::format, stub_format)]
        #[kani::stub(crate::error::Error::with_cmd, stub_with_cmd)]
        #[kani::stub(crate::error::Error::value_validation, stub_value_validation)]
        #[kani::stub(str::to_lowercase, stub_to_lowercase)]
        #[kani::stub(crate::output::usage::Usage::create_usage_with_title, stub_usage)]
        fn $name() {
            boolish::<{ $lit.len() }, $which>($lit, $exp)
        }
    };
}
macro_rules! bool_exact_h {
    ($name:ident, $unwind:expr, $lit:expr, $exp:expr) => {
        #[kani::proof]
        #[kani::unwind($unwind)]
        #[kani::stub(std::fmt::format, stub_format)]
        #[kani::stub(crate::error::Error::with_cmd, stub_with_cmd)]
        #[kani::stub(crate::error::Error::invalid_value, stub_invalid_value)]
        fn $name() {
            bool_exact($lit, $exp)
        }
    };
}

boolish_h!(str_to_bool_y, 0, b"y", Some(true));
boolish_h!(str_to_bool_yes, 0, b"yes", Some(true));
boolish_h!(str_to_bool_t, 0, b"t", Some(true));
boolish_h!(str_to_bool_true, 0, b"true", Some(true));
boolish_h!(str_to_bool_on, 0, b"on", Some(true));
boolish_h!(str_to_bool_1, 0, b"1", Some(true));
boolish_h!(str_to_bool_n, 0, b"n", Some(false));
boolish_h!(str_to_bool_no, 0, b"no", Some(false));
boolish_h!(str_to_bool_f, 0, b"f", Some(false));
boolish_h!(str_to_bool_false, 0, b"false", Some(false));
boolish_h!(str_to_bool_off, 0, b"off", Some(false));
boolish_h!(str_to_bool_0, 0, b"0", Some(false));
boolish_h!(str_to_bool_empty, 0, b"", None);
boolish_h!(str_to_bool_2, 0, b"2", None);
boolish_h!(str_to_bool_tru, 0, b"tru", None);
boolish_h!(str_to_bool_yess, 0, b"yess", None);
boolish_h!(str_to_bool_onn, 0, b"onn", None);
boolish_h!(str_to_bool_of, 0, b"of", None);
boolish_h!(boolish_yes, 1, b"yes", Some(true));
boolish_h!(falsey_yes, 2, b"yes", Some(true));
boolish_h!(boolish_off, 1, b"off", Some(false));
boolish_h!(falsey_off, 2, b"off", Some(false));
boolish_h!(boolish_tru, 1, b"tru", None);
boolish_h!(falsey_tru, 2, b"tru", None);
boolish_h!(boolish_empty, 1, b"", None);
boolish_h!(falsey_empty, 2, b"", None);
boolish_h!(boolish_0, 1, b"0", Some(false));
boolish_h!(falsey_0, 2, b"0", Some(false));

bool_exact_h!(bool_exact_true, 8, b"true", Some(true));
bool_exact_h!(bool_exact_false, 8, b"false", Some(false));
bool_exact_h!(bool_exact_t, 8, b"t", None);
bool_exact_h!(bool_exact_yes, 8, b"yes", None);
bool_exact_h!(bool_exact_1, 8, b"1", None);
bool_exact_h!(bool_exact_truee, 8, b"truee", None);

// ------------------------------------------------------------------ possible values

/// PossibleValue::new("fast").alias("quick"): matches <=> equal (or ASCII-case-equal when asked)
/// to the name or an alias.
fn possible<const L: usize>(cand: &[u8; L], lower_is_member: bool) {
    let pv = PossibleValue::new("fast").alias("quick");
    let ignore_case: bool = kani::any();
    let (b, all_lower) = case_masked(cand);
    let s = to_str(&b);
    let expect = lower_is_member && (ignore_case || all_lower);
    assert!(pv.matches(s, ignore_case) == expect);
    kani::cover!(ignore_case && !all_lower, "case-insensitive with upper-case letters");
    kani::cover!(!ignore_case && !all_lower, "case-sensitive with upper-case letters");
    kani::cover!(all_lower, "all lower case");
    std::mem::forget(pv);
}

macro_rules! possible_h {
    ($name:ident, $lit:expr, $member:expr) => {
        #[kani::proof]
        #[kani::unwind(8)]
        fn $name() {
            possible($lit, $member)
        }
    };
}
possible_h!(possible_fast, b"fast", true);
possible_h!(possible_quick, b"quick", true);
possible_h!(possible_fas, b"fas", false);
possible_h!(possible_fastt, b"fastt", false);
possible_h!(possible_quic, b"quic", false);
possible_h!(possible_slow, b"slow", false);

#[kani::proof]
#[kani::unwind(8)]
fn twin_c04_possible_must_fail() {
    let pv = PossibleValue::new("fast").alias("quick");
    let (b, _) = case_masked(b"quick");
    let ok = pv.matches(to_str(&b), kani::any());
    kani::assume(ok);
    std::mem::forget(pv);
    assert!(false, "twin: reachable end of harness");
}
