"""Minimal parser for `rustc -Zunpretty=mir` text: function headers, local declarations, basic
blocks, statements and terminators of the loop-free scalar functions Engine B targets.
Anything it does not recognise raises Unsupported (the check then exits 2, never "holds")."""
import re


class Unsupported(Exception):
    pass


class Fn:
    def __init__(self, name, params, ret, locals_, blocks, text, line):
        self.name, self.params, self.ret, self.locals, self.blocks, self.text, self.line = name, params, ret, locals_, blocks, text, line


class Lazy:
    """function body parsed on first use (only the targeted functions need to be supported)"""

    def __init__(self, lines, lineno):
        self.lines, self.lineno, self._fn = lines, lineno, None

    def get(self):
        if self._fn is None:
            self._fn = parse_fn(self.lines, self.lineno)
        return self._fn


def split_top(s, sep=","):
    """split on sep at nesting depth 0 of () [] {} <> and outside string literals"""
    out, depth, cur, i, instr = [], 0, "", 0, False
    while i < len(s):
        c = s[i]
        if instr:
            cur += c
            if c == "\\":
                cur += s[i + 1]
                i += 1
            elif c == '"':
                instr = False
        elif c == '"':
            instr = True
            cur += c
        elif c in "([{<":
            depth += 1
            cur += c
        elif c in ")]}>":
            if c == ">" and cur.endswith("-"):  # '->'
                cur += c
            else:
                depth -= 1
                cur += c
        elif c == sep and depth == 0:
            out.append(cur.strip())
            cur = ""
        else:
            cur += c
        i += 1
    if cur.strip():
        out.append(cur.strip())
    return out


def load(path):
    """return ({fn display name: Fn}, {const name: raw value text})"""
    lines = open(path).read().split("\n")
    fns, consts = {}, {}
    i = 0
    while i < len(lines):
        ln = lines[i]
        pm = re.match(r"^const (.*::promoted\[\d+\]): (.*) = \{$", ln)
        if pm:
            j = i + 1
            body = []
            while lines[j] != "}":
                body.append(lines[j])
                j += 1
            consts["promoted:" + pm.group(1)] = ("body", pm.group(2).strip(), body)
            i = j + 1
            continue
        m = re.match(r"^(?:pub )?const ([\w:<>\s]+?): ([^=]+) = (.*)$", ln)
        if m and not ln.startswith("    "):
            name, ty, rest = m.group(1).strip(), m.group(2).strip(), m.group(3).strip()
            if rest == "{":
                j = i + 1
                body = []
                while lines[j] != "}":
                    body.append(lines[j])
                    j += 1
                consts[name] = ("body", ty, body)
                i = j + 1
                continue
            consts[name] = ("lit", ty, rest.rstrip(";"))
            i += 1
            continue
        if ln.startswith("fn ") and ln.rstrip().endswith("{"):
            j = i + 1
            while lines[j] != "}":
                j += 1
            nm = re.match(r"^fn (.*?)\(", ln)
            if nm:
                fns.setdefault(nm.group(1), Lazy(lines[i:j + 1], i + 1))
            i = j + 1
            continue
        i += 1
    return fns, consts


def parse_fn(lines, lineno):
    head = lines[0]
    m = re.match(r"^fn (.*?)\((.*)\) -> (.*) \{$", head)
    if not m:
        raise Unsupported("function header: " + head)
    name, params, ret = m.group(1), m.group(2), m.group(3)
    plist = []
    for p in split_top(params):
        pm = re.match(r"^(_\d+): (.*)$", p)
        if not pm:
            raise Unsupported("parameter: " + p)
        plist.append((pm.group(1), pm.group(2)))
    locals_ = {p: t for p, t in plist}
    blocks = {}
    debug = {}
    cur = None
    for ln in lines[1:]:
        s = ln.strip()
        dm = re.match(r"^debug (\w+) => (_\d+);$", s)
        if dm:
            debug.setdefault(dm.group(1), dm.group(2))
            continue
        if not s or s.startswith("debug ") or s.startswith("scope ") or s == "}" or s.startswith("//"):
            continue
        lm = re.match(r"^let (?:mut )?(_\d+): (.*);$", s)
        if lm and cur is None:
            locals_[lm.group(1)] = lm.group(2)
            continue
        bm = re.match(r"^(bb\d+)( \(cleanup\))?: \{$", s)
        if bm:
            cur = bm.group(1)
            blocks[cur] = {"cleanup": bool(bm.group(2)), "stmts": []}
            continue
        if cur is None:
            raise Unsupported("unexpected line before first block: " + s)
        blocks[cur]["stmts"].append(s)
    fn = Fn(name, plist, ret, locals_, blocks, "\n".join(lines), lineno)
    fn.debug = debug
    return fn
