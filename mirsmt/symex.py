"""Symbolic execution of a loop-free MIR body into SMT-LIB2 (bit-vectors).

Values:  ("bv", term, width) | ("bool", term) | ("tuple", [values]) | ("opq", key)
Opaque values are never computed on; a typed read through an opaque place (a field of `self`,
a call result) becomes a fresh SMT constant keyed by the place/callee+argument text, so the same
read or the same pure call yields the same constant everywhere - also across functions.

Every `assert` terminator and every diverging panic call becomes an obligation:
   (path condition) AND NOT(cond)   must be unsat.
"""
import re

from mir import Unsupported, split_top

INT_W = {"usize": 64, "u64": 64, "isize": 64, "i64": 64, "u32": 32, "i32": 32, "u16": 16, "i16": 16, "u8": 8, "i8": 8, "char": 32}

NOOP_STMT = re.compile(r"^(StorageLive|StorageDead|FakeRead|PlaceMention|Retag|nop|ConstEvalCounter|Coverage|AscribeUserType)\b")


class Ctx:
    """Shared across functions of one check: SMT declarations and named constants."""

    def __init__(self, consts, contracts):
        self.decls = {}        # smt name -> sort
        self.keys = {}         # key text -> smt name
        self.consts = consts
        self.contracts = contracts
        self.assumptions = []  # (text, smt)
        self.log = []
        self.alias = {}        # opaque key -> canonical key (unifies the same object seen in two functions)

    def sym(self, key, sort):
        if key in self.keys:
            name = self.keys[key]
            if self.decls[name] != sort:
                raise Unsupported(f"key {key} used at two sorts")
            return name
        name = "v%d" % len(self.keys)
        self.keys[key] = name
        self.decls[name] = sort
        return name

    def assume(self, text, smt):
        if (text, smt) not in self.assumptions:
            self.assumptions.append((text, smt))

    def key_of(self, name):
        for k, v in self.keys.items():
            if v == name:
                return k
        return name


def bvlit(n, w):
    return "(_ bv%d %d)" % (n % (1 << w), w)


def sort_of(ty):
    ty = ty.strip()
    if ty == "bool":
        return "Bool"
    if ty in INT_W:
        return "(_ BitVec %d)" % INT_W[ty]
    return None


class Exec:
    def __init__(self, ctx, fn, args, depth=0):
        self.ctx, self.fn, self.depth = ctx, fn, depth
        self.obligations = []   # dicts: fn, block, kind, msg, pc(list of smt), neg(smt)
        self.returns = []       # (pc, value)
        self.return_calls = []  # per return path: callee names called on the way
        self.return_callargs = []  # per return path: (callee, argument keys, result key)
        self.return_envs = []      # per return path: the final environment (field stores by place text)
        self.env0 = {}
        for (p, ty), a in zip(fn.params, args):
            self.env0[p] = a

    # ---------------------------------------------------------------- values
    def typed_fresh(self, key, ty):
        ty = ty.strip()
        key = self.ctx.alias.get(key, key)
        s = sort_of(ty)
        if s == "Bool":
            return ("bool", self.ctx.sym(key, s))
        if s:
            name = self.ctx.sym(key, s)
            return ("bv", name, INT_W[ty])
        m = re.match(r"^\((.*)\)$", ty)
        if m and "," in ty:
            parts = split_top(m.group(1))
            return ("tuple", [self.typed_fresh(f"{key}.{i}", t) for i, t in enumerate(parts)])
        return ("opq", key)

    def const(self, text, ty_hint=None):
        t = text.strip()
        if t in ("true", "false"):
            return ("bool", t)
        m = re.match(r"^(-?\d+)_(usize|u64|isize|i64|u32|i32|u16|i16|u8|i8)$", t)
        if m:
            w = INT_W[m.group(2)]
            return ("bv", bvlit(int(m.group(1)), w), w)
        m = re.match(r"^'(.)'$", t)
        if m:
            return ("bv", bvlit(ord(m.group(1)), 32), 32)
        m = re.match(r"^'\\(n|r|t|0|\\|')'$", t)
        if m:
            return ("bv", bvlit({"n": 10, "r": 13, "t": 9, "0": 0, "\\": 92, "'": 39}[m.group(1)], 32), 32)
        if t.startswith('"'):
            return ("opq", "str:" + t)
        if t.startswith('b"') or t.startswith("&") or t.startswith("["):
            return ("opq", "bytes:" + t[:40])
        if re.match(r"^-?[\d.]+(e-?\d+)?f(32|64)$", t):
            return ("opq", "float:" + t)
        if t == "()":
            return ("opq", "unit")
        m = re.match(r"^core::num::<impl (\w+)>::(MAX|MIN)$", t)
        if m and m.group(1) in INT_W:
            w = INT_W[m.group(1)]
            signed = m.group(1).startswith("i")
            v = ((1 << (w - 1)) - 1 if signed else (1 << w) - 1) if m.group(2) == "MAX" else (-(1 << (w - 1)) if signed else 0)
            return ("bv", bvlit(v, w), w)
        if t.startswith("ZeroSized") or "promoted[" in t or t.startswith("{"):
            return ("opq", "const:" + t)
        # named constant (possibly path-qualified): resolve through the dump
        name = t.split("::")[-1]
        if name in self.ctx.consts:
            return self.eval_const(name)
        if re.match(r"^[\w:<>', ]+$", t):
            return ("opq", "const:" + t)   # a named constant of a type the checks do not compute with
        raise Unsupported("constant: " + text)

    def eval_const(self, name):
        kind, ty, val = self.ctx.consts[name]
        if kind == "lit":
            v = val.strip()
            if v.startswith("const "):
                v = v[6:]
            return self.const(v)
        # body form: only `str::len(<string const>)` is needed (TAB_WIDTH = TAB.len())
        body = "\n".join(val)
        m = re.search(r"_0 = core::str::<impl str>::len\(move (_\d+)\)", body)
        if m:
            lit = re.search(r'= const "((?:[^"\\\\]|\\\\.)*)";', body)
            if lit:
                return ("bv", bvlit(len(lit.group(1).encode().decode("unicode_escape").encode("latin-1", "ignore")), 64), 64)
            sm = re.search(r"= const ([\w:]+);", body)
            if sm:
                inner = self.eval_const(sm.group(1).split("::")[-1])
                if inner[0] == "opq" and inner[1].startswith('str:"'):
                    s = inner[1][5:-1]
                    return ("bv", bvlit(len(s.encode()), 64), 64)
        raise Unsupported("constant body: " + name)

    # ---------------------------------------------------------------- places / operands
    def read_place(self, env, place):
        place = place.strip()
        if ("place:" + place) in env:
            return env["place:" + place]   # a field written earlier on this path
        m = re.match(r"^(_\d+)$", place)
        if m:
            if place not in env:
                ty = self.fn.locals.get(place, "?")
                if getattr(self, "havoc", False) and ty != "?":
                    env[place] = self.typed_fresh(f"{self.fn.name.split('::')[-1]}:{place}", ty)
                    if env[place][0] == "bv" and env[place][2] == 64 and getattr(self, "havoc_bound", None):
                        self.ctx.assume(f"counter {place} < 2^48", f"(bvult {env[place][1]} (_ bv{self.havoc_bound} 64))")
                    return env[place]
                raise Unsupported(f"read of unassigned local {place}: {ty} in {self.fn.name}")
            return env[place]
        if place.startswith("(") and place.endswith(")"):
            inner = place[1:-1]
            if inner.startswith("*"):
                b = self.read_place(env, inner[1:])
                if b[0] == "opq":
                    # deref of an opaque reference: the same abstract object; a reference to a scalar
                    # (`&usize`, `&bool`) yields the scalar it points to
                    lty = self.fn.locals.get(inner[1:].strip(), "")
                    m2 = re.match(r"^&(?:'\w+ )?(?:mut )?(\w+)$", lty.strip())
                    if m2 and sort_of(m2.group(1)):
                        return self.typed_fresh(b[1], m2.group(1))
                    return ("opq", b[1])
                return b
            # split at nesting depth 0: "<base> as <Variant>"  or  "<base>.<k>: <type>"
            depth, cut_as, cut_field = 0, None, None
            for idx, ch in enumerate(inner):
                if ch in "([{<":
                    depth += 1
                elif ch in ")]}>":
                    depth -= 1
                elif depth == 0 and inner.startswith(" as ", idx) and cut_as is None and cut_field is None:
                    cut_as = idx
                elif depth == 0 and ch == "." and cut_field is None and cut_as is None and re.match(r"^\.\d+: ", inner[idx:]):
                    cut_field = idx
            if cut_as is not None:
                b = self.read_place(env, inner[:cut_as])
                variant = inner[cut_as + 4:].strip()
                if b[0] == "opq":
                    return ("opq", f"{b[1]}@{variant}")
                if b[0] in ("option", "enum"):
                    return ("tuple", [b[2]])   # the variant's single payload field
                raise Unsupported("downcast of non-enum: " + place)
            if cut_field is not None:
                base = inner[:cut_field]
                fm = re.match(r"^\.(\d+): (.*)$", inner[cut_field:])
                k, ty = int(fm.group(1)), fm.group(2)
                b = self.read_place(env, base)
                if b[0] == "tuple":
                    return b[1][k]
                if b[0] == "opq":
                    return self.typed_fresh(f"{b[1]}.{k}", ty)
                raise Unsupported("field of non-aggregate: " + place)
        raise Unsupported("place: " + place)

    def operand(self, env, op):
        op = op.strip()
        if op.startswith("copy ") or op.startswith("move "):
            return self.read_place(env, op[5:])
        if op.startswith("no_retag "):
            return self.operand(env, op[9:])
        if op.startswith("const "):
            return self.const(op[6:])
        if re.match(r"^[A-Za-z_<][\w:<>', &\[\]]*$", op) and "::" in op:
            return ("opq", "fnitem:" + op)   # a function item passed as a value
        raise Unsupported("operand: " + op)

    # ---------------------------------------------------------------- rvalues
    def rvalue(self, env, rv, dst_ty):
        rv = rv.strip()
        m = re.match(r"^(AddWithOverflow|SubWithOverflow|MulWithOverflow)\((.*)\)$", rv)
        if m:
            a, b = [self.operand(env, x) for x in split_top(m.group(2))]
            # an opaque operand of integer arithmetic (e.g. a pointer cast to usize) is a free 64-bit value keyed by its origin
            a, b = [(self.typed_fresh("int:" + v[1], "usize") if v[0] == "opq" else v) for v in (a, b)]
            if a[0] != "bv" or b[0] != "bv":
                raise Unsupported("checked arithmetic on a non-integer value: " + rv)
            w = a[2]
            ea, eb = f"((_ zero_extend {w}) {a[1]})", f"((_ zero_extend {w}) {b[1]})"
            if m.group(1) == "AddWithOverflow":
                res, ovf = f"(bvadd {a[1]} {b[1]})", f"(bvult (bvadd {a[1]} {b[1]}) {a[1]})"
            elif m.group(1) == "SubWithOverflow":
                res, ovf = f"(bvsub {a[1]} {b[1]})", f"(bvult {a[1]} {b[1]})"
            else:
                res = f"(bvmul {a[1]} {b[1]})"
                ovf = f"(not (= ((_ extract {2*w-1} {w}) (bvmul {ea} {eb})) {bvlit(0, w)}))"
            if "usize" not in dst_ty and "u" not in dst_ty.split(",")[0]:
                raise Unsupported("signed checked arithmetic: " + rv)
            return ("tuple", [("bv", res, w), ("bool", ovf)])
        m = re.match(r"^(Add|Sub|Mul|BitAnd|BitOr|BitXor|Lt|Le|Gt|Ge|Eq|Ne)\((.*)\)$", rv)
        if m:
            a, b = [self.operand(env, x) for x in split_top(m.group(2))]
            op = m.group(1)
            if a[0] == "opq" or b[0] == "opq":
                # float comparison etc.: over-approximate by a free value of the result type
                return self.typed_fresh(f"{op}({a[1]},{b[1]})", dst_ty)
            if a[0] == "bool":
                t = {"Eq": f"(= {a[1]} {b[1]})", "Ne": f"(not (= {a[1]} {b[1]}))", "BitAnd": f"(and {a[1]} {b[1]})",
                     "BitOr": f"(or {a[1]} {b[1]})", "BitXor": f"(xor {a[1]} {b[1]})"}.get(op)
                if t is None:
                    raise Unsupported("bool op " + rv)
                return ("bool", t)
            w = a[2]
            unsigned = not self._signed_operand(env, split_top(m.group(2))[0])
            cmpu = {"Lt": "bvult", "Le": "bvule", "Gt": "bvugt", "Ge": "bvuge"}
            cmps = {"Lt": "bvslt", "Le": "bvsle", "Gt": "bvsgt", "Ge": "bvsge"}
            if op in cmpu:
                return ("bool", f"({(cmpu if unsigned else cmps)[op]} {a[1]} {b[1]})")
            if op == "Eq":
                return ("bool", f"(= {a[1]} {b[1]})")
            if op == "Ne":
                return ("bool", f"(not (= {a[1]} {b[1]}))")
            f = {"Add": "bvadd", "Sub": "bvsub", "Mul": "bvmul", "BitAnd": "bvand", "BitOr": "bvor", "BitXor": "bvxor"}[op]
            return ("bv", f"({f} {a[1]} {b[1]})", w)
        m = re.match(r"^Not\((.*)\)$", rv)
        if m:
            a = self.operand(env, m.group(1))
            if a[0] == "bool":
                return ("bool", f"(not {a[1]})")
            if a[0] == "bv":
                return ("bv", f"(bvnot {a[1]})", a[2])
        m = re.match(r"^&(?:mut |raw const |raw mut )?(.*)$", rv)
        if m:
            v = self.read_place(env, m.group(1)) if not re.match(r"^_\d+$", m.group(1).strip()) or m.group(1).strip() in env else ("opq", f"{self.fn.name}:{m.group(1).strip()}")
            return v  # a reference is modelled by the object it points to
        m = re.match(r"^((?:copy|move|const) .*?) as (.+?) \(([A-Za-z]+(?:\(.*\))?)\)$", rv)
        if m:
            a = self.operand(env, m.group(1))
            to, kind = m.group(2), m.group(3)
            if a[0] == "opq":
                return ("opq", f"cast:{a[1]}")
            if kind == "IntToInt" and a[0] == "bv" and to in INT_W:
                w2 = INT_W[to]
                if w2 == a[2]:
                    return ("bv", a[1], w2)
                if w2 < a[2]:
                    return ("bv", f"((_ extract {w2-1} 0) {a[1]})", w2)
                ext = "sign_extend" if self._signed_operand(env, m.group(1)) else "zero_extend"
                return ("bv", f"((_ {ext} {w2-a[2]}) {a[1]})", w2)
            # int->float and friends: opaque, keyed by the source term
            return ("opq", f"cast:{kind}:{to}({a[1]})")
        m = re.match(r"^discriminant\((.*)\)$", rv)
        if m:
            b = self.read_place(env, m.group(1))
            if b[0] == "opq":
                return self.typed_fresh(f"discr({b[1]})", "isize")
            if b[0] == "option":
                return ("bv", f"(ite {b[1]} {bvlit(1, 64)} {bvlit(0, 64)})", 64)
            if b[0] == "enum":
                idx = {"None": 0, "Some": 1, "Ok": 0, "Err": 1}[b[1]]
                return ("bv", bvlit(idx, 64), 64)
        m = re.match(r"^PtrMetadata\((.*)\)$", rv)
        if m:
            a = self.operand(env, m.group(1))
            return self.typed_fresh(f"len({self.key(a)})", "usize")
        m = re.match(r"^[\w:<>, ()&'\[\]]*::(Ok|Err|Some|None)(?:\((.*)\))?$", rv)
        if m and not rv.startswith("copy ") and not rv.startswith("move "):
            payload = self.operand(env, m.group(2)) if m.group(2) else None
            return ("enum", m.group(1), payload)
        m = re.match(r"^\{closure@.*\} \{.*\}$", rv)
        if m:
            return ("opq", "closure:" + rv)
        if rv.startswith("copy ") or rv.startswith("move ") or rv.startswith("const ") or rv.startswith("no_retag "):
            return self.operand(env, rv)
        if rv.startswith("(") and rv.endswith(")") and not rv.startswith("(*") and (rv == "()" or "," in rv):
            parts = split_top(rv[1:-1])
            if all(p.startswith(("copy ", "move ", "const ")) for p in parts):
                return ("tuple", [self.operand(env, p) for p in parts])   # tuple aggregate
        m = re.match(r"^([\w:<>', ]+)::([A-Z]\w*)(?:\((.*)\))?$", rv)
        if m and not rv.startswith(("copy ", "move ", "const ")):
            # enum variant aggregate of a type the checks do not reason about: opaque, keyed by its operands
            ops = [self.key(self.operand(env, o)) for o in split_top(m.group(3))] if m.group(3) else []
            return ("opq", f"variant:{m.group(1).split('::')[-1]}::{m.group(2)}({','.join(ops)})")
        if rv.startswith("[") and rv.endswith("]"):
            parts = split_top(rv[1:-1].split(";")[0]) if rv[1:-1].strip() else []
            return ("opq", "array(" + ",".join(self.key(self.operand(env, p)) for p in parts) + ")")
        if re.match(r"^(Len|ShallowInitBox|CopyForDeref|UnaryOp|NullOp|Cast)\(", rv) or rv.startswith("SizeOf(") or rv.startswith("AlignOf("):
            return ("opq", "misc:" + rv[:40])
        if re.match(r"^[\w:<>]+ \{.*\}$", rv):
            return ("opq", "aggr:" + rv.split(" {")[0])   # struct / enum-struct-variant aggregate
        m = re.match(r"^(Div|Rem)\((.*)\)$", rv)
        if m:
            a, b = [self.operand(env, x) for x in split_top(m.group(2))]
            if a[0] == "opq" or b[0] == "opq":
                return ("opq", f"{m.group(1)}({a[1]},{b[1]})")
        raise Unsupported("rvalue: " + rv)

    def _signed_operand(self, env, op):
        m = re.search(r"(_\d+)", op)
        if m:
            ty = self.fn.locals.get(m.group(1), "")
            return ty.strip().startswith("i")
        m = re.search(r"_(i\d+|isize)$", op.strip())
        return bool(m)

    # ---------------------------------------------------------------- execution
    def run(self, start="bb0", stop_at=None, env=None, havoc_unassigned=False, cut_loops=False):
        """stop_at: block name; reaching it (after at least one step) records (pc, env) in self.stops
        instead of executing it.  havoc_unassigned: a local read before any assignment on this path
        (defined before the fragment) is a fresh symbol of its declared type."""
        self.stop_at = stop_at
        self.havoc = havoc_unassigned
        self.cut_loops = cut_loops
        self.cuts = []
        self.stops = []
        e = dict(self.env0)
        if env:
            e.update(env)
        self._block(start, e, [], 0)
        return self

    def _block(self, bb, env, pc, steps):
        if steps > 600:
            raise Unsupported("path too long (loop?) in " + self.fn.name)
        if getattr(self, "stop_at", None) == bb and steps > 0:
            self.stops.append((list(pc), dict(env)))
            return
        if getattr(self, "cut_loops", False):
            seen = env.get("#visited", ())
            if bb in seen:
                # inner loop: the path is cut at the back edge (the zero-iteration exit was explored
                # from the first visit); recorded so that specs can still inspect the calls made
                self.cuts.append((list(pc), dict(env)))
                return
            env = dict(env)
            env["#visited"] = seen + (bb,)
        blk = self.fn.blocks[bb]
        for st in blk["stmts"]:
            st = st.rstrip(";").strip() if not st.endswith("];") else st.rstrip(";").strip()
            if NOOP_STMT.match(st):
                continue
            # ---- terminators
            m = re.match(r"^goto -> (bb\d+)$", st)
            if m:
                return self._block(m.group(1), env, pc, steps + 1)
            if st == "return":
                self.returns.append((list(pc), env.get("_0", ("opq", "unit"))))
                self.return_calls.append(env.get("#calls", ()))
                self.return_callargs.append(env.get("#callargs", ()))
                self.return_envs.append(env)
                return
            if st in ("unreachable", "resume") or st.startswith("resume"):
                return
            m = re.match(r"^switchInt\((.*?)\) -> \[(.*)\]$", st)
            if m:
                v = self.operand(env, m.group(1))
                arms = split_top(m.group(2))
                taken = []
                for arm in arms:
                    k, tgt = [x.strip() for x in arm.split(":")]
                    if v[0] == "bool" and v[1] in ("true", "false"):
                        # concrete condition: follow only the arm that is taken
                        is_true = v[1] == "true"
                        if (k == "otherwise" and not is_true and any(a.split(":")[0].strip() == "0" for a in arms)) or \
                           (k == "0" and is_true) or (k not in ("0", "otherwise") and not is_true):
                            if k != "otherwise":
                                taken.append("true" if (int(k) != 0) == is_true else "false")
                            continue
                    if v[0] == "bv" and re.match(r"^\(_ bv\d+ \d+\)$", v[1]):
                        # concrete integer (a literal discriminant): follow only the arm that is taken
                        lit = int(v[1].split()[1][2:])
                        ks = [a.split(":")[0].strip() for a in arms]
                        hit = str(lit) if str(lit) in ks else "otherwise"
                        if k != hit:
                            continue
                        self._block(tgt, dict(env), pc, steps + 1)
                        continue
                    if k == "otherwise":
                        def neg1(c):
                            return c[5:-1] if c.startswith("(not ") and c.endswith(")") and c.count("(") == c.count(")") and _balanced(c[5:-1]) else f"(not {c})"
                        cond = "(and " + " ".join(neg1(c) for c in taken) + ")" if len(taken) > 1 else (neg1(taken[0]) if taken else "true")
                    else:
                        n = int(k)
                        if v[0] == "bool":
                            cond = v[1] if n != 0 else f"(not {v[1]})"
                        elif v[0] == "bv":
                            cond = f"(= {v[1]} {bvlit(n, v[2])})"
                        else:
                            raise Unsupported("switchInt on opaque value: " + st)
                        taken.append(cond)
                    self._block(tgt, dict(env), pc + [cond], steps + 1)
                return
            m = re.match(r"^assert\((!?)(.*?), \"(.*?)\".*\) -> \[success: (bb\d+), unwind.*\]$", st)
            if m:
                neg, op, msg, tgt = m.groups()
                v = self.operand(env, op)
                if v[0] != "bool":
                    raise Unsupported("assert on non-bool: " + st)
                cond = f"(not {v[1]})" if neg else v[1]
                self.obligations.append({"fn": self.fn.name, "block": bb, "kind": "assert", "msg": msg, "pc": list(pc), "neg": f"(not {cond})"})
                return self._block(tgt, env, pc + [cond], steps + 1)
            m = re.match(r"^drop\(.*\) -> \[return: (bb\d+), unwind.*\]$", st)
            if m:
                return self._block(m.group(1), env, pc, steps + 1)
            m = _parse_call(st) if not st.startswith("assert(") else None
            if m:
                dst, callee, args, ret = m
                argv = [self.operand(env, a) for a in split_top(args)] if args.strip() else []
                # a callee that receives a `&mut` argument may return something different each time:
                # its opaque result is keyed by the call's ordinal on this path as well
                self._stateful = None
                for a in split_top(args) if args.strip() else []:
                    lm = re.search(r"(_\d+)$", a.strip())
                    if lm and self.fn.locals.get(lm.group(1), "").strip().startswith("&mut"):
                        n = sum(1 for c in env.get("#calls", ()) if c == callee.strip())
                        self._stateful = n
                        break
                if ret is None:
                    # diverging call (panic): reaching it is a violation
                    self.obligations.append({"fn": self.fn.name, "block": bb, "kind": "panic", "msg": callee.strip(), "pc": list(pc), "neg": "true"})
                    return
                val = self.call(callee.strip(), argv, dst, env, pc)
                env["#calls"] = env.get("#calls", ()) + (callee.strip(),)
                env["#callargs"] = env.get("#callargs", ()) + ((callee.strip(), tuple(self.key(a) for a in argv), self.key(val) if dst else ""),)
                if dst:
                    self.assign(env, dst.strip(), val)
                return self._block(ret, env, pc, steps + 1)
            # ---- assignment
            m = re.match(r"^(.+?) = (.*)$", st)
            if m:
                dst, rv = m.group(1).strip(), m.group(2)
                ty = self.fn.locals.get(dst, "?")
                self.assign(env, dst, self.rvalue(env, rv, ty))
                continue
            raise Unsupported("statement: " + st)
        raise Unsupported("block without terminator: " + bb)

    def assign(self, env, dst, val):
        if re.match(r"^_\d+$", dst):
            env[dst] = val
            return
        # store through a projection (a field of *self, an element behind a reference): remembered by
        # its place text; distinct place texts are assumed not to alias (true for fields of one struct)
        env["place:" + dst] = val

    def call(self, callee, argv, dst, env, pc):
        ty = self.fn.locals.get(dst.strip(), "()") if dst else "()"
        c = self.ctx.contracts
        argkey = ",".join(self.key(a) for a in argv)
        if getattr(self, "_stateful", None):
            argkey += f"#call{self._stateful}"
        handler = c.lookup(callee)
        if handler is None:
            raise Unsupported(f"call to {callee} has no contract (in {self.fn.name})")
        return handler(self, callee, argv, argkey, ty, pc)

    def key(self, v):
        if v is None:
            return "()"
        if v[0] == "opq":
            return v[1]
        if v[0] == "option":
            return f"option({v[1]},{self.key(v[2])})"
        if v[0] == "enum":
            return f"{v[1]}({self.key(v[2])})"
        if v[0] in ("bv", "bool"):
            return self.ctx.key_of(v[1]) if re.match(r"^v\d+$", v[1]) else v[1]
        return "(" + ",".join(self.key(x) for x in v[1]) + ")"


def _balanced(t):
    d = 0
    for ch in t:
        if ch == "(":
            d += 1
        elif ch == ")":
            d -= 1
            if d < 0:
                return False
    return d == 0


def _parse_call(st):
    """`[dst = ]callee(args) -> [return: bbN, unwind ..]` or `... -> unwind ..` (diverging).
    The argument list is the balanced parenthesis group that ends right before ` -> `."""
    m = re.match(r"^(.*)\) -> (\[return: (bb\d+), unwind.*\]|unwind .*|bb\d+)$", st)
    if not m:
        return None
    head, ret = m.group(1), m.group(3)
    depth, i, instr = 1, len(head) - 1, False
    while i >= 0:
        c = head[i]
        if c == '"' and (i == 0 or head[i - 1] != "\\"):
            instr = not instr
        elif not instr:
            if c == ")":
                depth += 1
            elif c == "(":
                depth -= 1
                if depth == 0:
                    break
        i -= 1
    if i < 0:
        return None
    args = head[i + 1:]
    left = head[:i]
    dm = re.match(r"^(_\d+|\(.*?\)) = (.*)$", left)
    if dm and not re.match(r"^[\w:<>]", dm.group(1)[0:1] if False else "_"):
        pass
    if dm:
        dst, callee = dm.group(1), dm.group(2)
    else:
        dst, callee = None, left
    return dst, callee, args, ret


def script(ctx, pc, neg, extra=()):
    out = ["(set-logic ALL)", "(set-option :produce-models true)"]
    for name, sort in ctx.decls.items():
        out.append(f"(declare-const {name} {sort})")
    for text, smt in ctx.assumptions:
        out.append(f"(assert {smt}) ; {text}")
    for e in extra:
        out.append(f"(assert {e})")
    for c in pc:
        out.append(f"(assert {c})")
    out.append(f"(assert {neg})")
    out.append("(check-sat)")
    return "\n".join(out) + "\n"
