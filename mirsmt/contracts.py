"""Call contracts for Engine B.  Every entry is an ASSUMPTION and is reported in the evidence.

A callee not listed here makes the translation refuse (Unsupported) - calls are never skipped.
"""
import re

from mir import Unsupported

WIDTH_BOUND = 1 << 48   # no string of 2^48 columns exists in a process


class Contracts:
    def __init__(self, fns, default_pure=False, extra_inline=(), fixed=None, effects_inline=(), option_eq=False):
        self.fns = fns
        self.option_eq = option_eq   # define <Option<usize> as PartialEq>::eq structurally instead of leaving it opaque
        self.used = {}
        self.default_pure = default_pure
        self.extra_inline = tuple(extra_inline)
        self.fixed = dict(fixed or {})   # callee regex -> concrete value: the scenario under which a fragment is explored
        self.effects_inline = tuple(effects_inline)   # callees whose MIR is executed for its panic/assert edges; result stays opaque
        self.check_unwrap = None
        self.table = [
            (r"^longest_filter$|^Arg::is_positional$|^builder::arg::Arg::is_positional$", self.inline, "longest_filter, Arg::is_positional: INLINED from their own MIR (not a contract)"),
            # (regex on callee text, handler, description)
            (r"^(output::textwrap::core::)?display_width$|^StyledStr::display_width$", self.width,
             "display_width/StyledStr::display_width: pure, result < 2^48 (same argument -> same value)"),
            (r"^<String as Deref>::deref$|^<std::string::String as Deref>::deref$|^core::str::<impl str>::.*as_str$", self.identity,
             "<String as Deref>::deref: the string itself"),
            (r"^<Arg as ToString>::to_string$", self.pure, "<Arg as ToString>::to_string: pure function of the arg"),
            (r"^Arg::(is_takes_value_set|get_long|get_short|is_next_line_help_set|get_help|get_long_help|is_hide_set|is_hide_short_help_set|is_hide_long_help_set)$",
             self.pure, "Arg getters: pure functions of the arg (free values)"),
            (r"^(command::)?Command::(is_next_line_help_set|get_about|get_long_about)$", self.pure, "Command getters: pure functions of the command"),
            (r"^Option::<.*>::(is_some|is_none)$", self.option_test, "Option::is_some / is_none: complementary tests of the same option"),
            (r"^Option::<.*>::(or_else|unwrap_or_default|or|unwrap_or)(::<.*>)?$", self.pure, "Option combinators: opaque pure value"),
            (r"^StyledStr::(push_str|push_styled|push_string|trim_end)$|^HelpTemplate::<'_, '_>::write_padding$", self.unit,
             "writer output calls: no effect on the integers checked"),
            (r"^<usize as Ord>::max$|^std::cmp::max::<usize>$|^core::cmp::max::<usize>$", self.umax, "usize max: mathematical maximum"),
            (r"^longest_filter$|^Arg::is_positional$", self.inline, "longest_filter, Arg::is_positional: INLINED from their own MIR (not a contract)"),
        ]

    def lookup(self, callee):
        for rx, val in self.fixed.items():
            if re.search(rx, callee):
                self.used[f"scenario: {callee} returns {val[1]}"] = self.used.get(f"scenario: {callee} returns {val[1]}", 0) + 1
                return lambda ex, c, argv, argkey, ty, pc, _v=val: _v
        for rx in self.effects_inline:
            if re.search(rx, callee):
                d = "executed from its own MIR for panic/overflow edges (result opaque): " + callee
                self.used[d] = self.used.get(d, 0) + 1
                return self.inline_effects
        for rx in self.extra_inline:
            if re.search(rx, callee):
                self.used["INLINED from its own MIR: " + callee] = self.used.get("INLINED from its own MIR: " + callee, 0) + 1
                return self.inline
        if re.search(r"(^|::|>::)then_some::<.*>$", callee):
            self.used["bool::then_some(b, v): Some(v) iff b"] = self.used.get("bool::then_some(b, v): Some(v) iff b", 0) + 1
            return self.then_some
        if getattr(self, "check_unwrap", None) and re.search(r"^Option::<.*>::(unwrap|expect)$", callee):
            return self.unwrap
        if self.option_eq and callee == "<Option<usize> as PartialEq>::eq":
            d = "<Option<usize> as PartialEq>::eq: structural (same variant, and equal payloads when Some) - the derived impl"
            self.used[d] = self.used.get(d, 0) + 1
            return self.opt_eq
        if re.search(r"^(std::result::)?Result::<.*>::map_err::<", callee):
            d = "Result::map_err keeps the variant: Ok(v) stays Ok(v), Err(e) becomes Err(f(e))"
            self.used[d] = self.used.get(d, 0) + 1
            return self.map_err
        if re.search(r"^<.* as PartialEq(<.*>)?>::ne$", callee):
            d = "PartialEq::ne(a, b) == !PartialEq::eq(a, b) (same symbol)"
            self.used[d] = self.used.get(d, 0) + 1
            return self.ne
        r = self._lookup(callee)
        if r is None and self.default_pure:
            d = "any other callee: pure opaque value of its arguments, no effect on the scalars checked (spec mode)"
            self.used[d] = self.used.get(d, 0) + 1
            return self.pure
        return r

    def inline_effects(self, ex, callee, argv, argkey, ty, pc):
        from symex import Exec
        fn = self.fns.get(callee)
        if fn is None:
            raise Unsupported("cannot execute (no MIR body): " + callee)
        if ex.depth > 2:
            raise Unsupported("inline depth")
        sub = Exec(ex.ctx, fn.get(), argv, ex.depth + 1)
        sub.run(havoc_unassigned=False, cut_loops=True)
        for ob in sub.obligations:
            ob = dict(ob)
            ob["pc"] = list(pc) + ob["pc"]
            ob["via"] = callee
            ex.obligations.append(ob)
        return ex.typed_fresh(f"{callee}({argkey})#{len(ex.obligations)}", ty)

    def unwrap(self, ex, callee, argv, argkey, ty, pc):
        """Option::unwrap / expect: a panic edge when the option can be None.  Only options whose key
        matches `check_unwrap` (e.g. results of Command::find) are checked; others are assumed Some."""
        a = argv[0]
        key = ex.key(a)
        if re.search(self.check_unwrap, key):
            some = ex.typed_fresh(f"is_some({key})", "bool")
            ex.obligations.append({"fn": ex.fn.name, "block": "call", "kind": "panic", "msg": f"{callee.split('::')[-1]}() on `{key[:70]}` which can be None",
                                   "pc": list(pc) + [f"(not {some[1]})"], "neg": "true"})
            d = "Option::unwrap/expect on a checked lookup: panics iff the lookup is None"
            self.used[d] = self.used.get(d, 0) + 1
        return ex.typed_fresh(f"{callee}({argkey})", ty)

    def ne(self, ex, callee, argv, argkey, ty, pc):
        eq = ex.typed_fresh(f"{callee[:-4]}::eq({argkey})", "bool")
        return ("bool", f"(not {eq[1]})")

    @staticmethod
    def opt_parts(ex, v):
        """(is_some term, payload term or None) of an Option<usize> value"""
        if v[0] == "enum":
            return ("true", v[2][1]) if v[1] == "Some" else ("false", None)
        if v[0] == "option":
            return (v[1], v[2][1])
        if v[0] == "opq":
            d = ex.typed_fresh(f"discr({v[1]})", "isize")
            return (f"(= {d[1]} (_ bv1 64))", ex.typed_fresh(f"{v[1]}@Some.0", "usize")[1])
        raise Unsupported("Option<usize> value of unexpected shape: " + repr(v)[:80])

    def opt_eq(self, ex, callee, argv, argkey, ty, pc):
        (sa, pa), (sb, pb) = self.opt_parts(ex, argv[0]), self.opt_parts(ex, argv[1])
        same = f"(= {pa} {pb})" if pa is not None and pb is not None else "true"
        return ("bool", f"(and (= {sa} {sb}) (=> {sa} {same}))")

    def map_err(self, ex, callee, argv, argkey, ty, pc):
        a = argv[0]
        if a[0] == "enum" and a[1] == "Ok":
            return a
        if a[0] == "enum" and a[1] == "Err":
            return ("enum", "Err", ("opq", f"{callee}({argkey})@Err.0"))
        res = ("opq", f"{callee}({argkey})")
        if a[0] == "opq":
            da = ex.typed_fresh(f"discr({a[1]})", "isize")
            dr = ex.typed_fresh(f"discr({res[1]})", "isize")
            ex.ctx.assume("Result::map_err keeps the variant", f"(= {dr[1]} {da[1]})")
        return res

    def then_some(self, ex, callee, argv, argkey, ty, pc):
        return ("option", argv[0][1], argv[1])

    def _lookup(self, callee):
        for rx, h, desc in self.table:
            if re.search(rx, callee):
                self.used[desc] = self.used.get(desc, 0) + 1
                return h
        return None

    # ---- handlers: (exec, callee, argv, argkey, ret_ty, pc) -> value
    def pure(self, ex, callee, argv, argkey, ty, pc):
        return ex.typed_fresh(f"{callee}({argkey})", ty)

    def identity(self, ex, callee, argv, argkey, ty, pc):
        return argv[0]

    def unit(self, ex, callee, argv, argkey, ty, pc):
        return ("opq", "unit")

    def width(self, ex, callee, argv, argkey, ty, pc):
        v = ex.typed_fresh(f"display_width({argkey})", "usize")
        ex.ctx.assume(f"display_width({argkey}) < 2^48", f"(bvult {v[1]} (_ bv{WIDTH_BOUND} 64))")
        return v

    def option_test(self, ex, callee, argv, argkey, ty, pc):
        some = ex.typed_fresh(f"is_some({argkey})", "bool")
        if callee.endswith("is_none"):
            return ("bool", f"(not {some[1]})")
        return some

    def umax(self, ex, callee, argv, argkey, ty, pc):
        a, b = argv
        return ("bv", f"(ite (bvuge {a[1]} {b[1]}) {a[1]} {b[1]})", 64)

    def inline(self, ex, callee, argv, argkey, ty, pc):
        from symex import Exec
        fn = self.fns.get(callee)
        if fn is None and "::" in callee:
            owner, method = callee.split("::")[-2:]
            src = {"Arg": "clap_builder/src/builder/arg.rs", "ValueRange": "clap_builder/src/builder/range.rs"}.get(owner)
            cands = [f for n, f in self.fns.items() if src and n.endswith(">::" + method) and src in n]
            if len(cands) == 1:
                fn = cands[0]
        if fn is None:
            raise Unsupported("cannot inline (no unique MIR body): " + callee)
        fn = fn.get()
        if ex.depth > 3:
            raise Unsupported("inline depth")
        sub = Exec(ex.ctx, fn, argv, ex.depth + 1).run()
        for ob in sub.obligations:
            ob = dict(ob)
            ob["pc"] = list(pc) + ob["pc"]
            ex.obligations.append(ob)
        if ty.strip().startswith("std::option::Option<") or ty.strip().startswith("Option<"):
            # Option-returning callee: merge the return paths into (is_some, payload)
            inner = re.match(r"^(?:std::option::)?Option<(.*)>$", ty.strip()).group(1)
            some = ex.typed_fresh(f"is_some({callee}({argkey}))", "bool")
            pay = ex.typed_fresh(f"payload({callee}({argkey}))", inner)
            for rpc, val in sub.returns:
                cond = "(and " + " ".join(rpc) + ")" if len(rpc) > 1 else (rpc[0] if rpc else "true")
                if val[0] == "option":
                    ex.ctx.assume(f"{callee}({argkey}) defined by its MIR", f"(=> {cond} (and (= {some[1]} {val[1]}) (=> {val[1]} (= {pay[1]} {val[2][1]}))))")
                elif val[0] == "enum":
                    if val[1] == "Some":
                        ex.ctx.assume(f"{callee}({argkey}) defined by its MIR", f"(=> {cond} (and {some[1]} (= {pay[1]} {val[2][1]})))")
                    else:
                        ex.ctx.assume(f"{callee}({argkey}) defined by its MIR", f"(=> {cond} (not {some[1]}))")
                else:
                    raise Unsupported("inline: unsupported Option return shape")
            return ("option", some[1], pay)
        res = ex.typed_fresh(f"{callee}({argkey})", ty)
        if res[0] not in ("bool", "bv"):
            raise Unsupported("inline of non-scalar function")
        for rpc, val in sub.returns:
            cond = "(and " + " ".join(rpc) + ")" if len(rpc) > 1 else (rpc[0] if rpc else "true")
            ex.ctx.assume(f"{callee}({argkey}) defined by its MIR", f"(=> {cond} (= {res[1]} {val[1]}))")
        return res
