// Counterexample found by Kani for harness c14::cur_step_remaining
// bound: arbitrary reachable cursor state then remaining(): inductive step
// failed check: This is a placeholder message; Kani doesn't support message formatted at runtime @ ../../../home/runner/.rustup/toolchains/nightly-2026-08-21-x86_64-unknown-linux-gnu/lib/rustlib/src/rust/library/core/src/slice/index.rs:41:9 in function core::slice::index::slice_index_fail::do_panic::runtime
// native replay: {'dev': ['panicked'], 'release-like': ['panicked']}
// to re-run: paste this test next to the harness (it is what `--concrete-playback=inplace` adds)
// and run: cargo kani playback -Z concrete-playback -- <test name>

/// Test generated for harness `c14::cur_step_remaining` 
///
/// Check for `assertion`: "This is a placeholder message; Kani doesn't support message formatted at runtime"

#[test]
fn kani_concrete_playback_cur_step_remaining_12035315641333474609() {
    let concrete_vals: Vec<Vec<u8>> = vec![
        // 1073741826ul
        vec![2, 0, 0, 64, 0, 0, 0, 0],
        // 2
        vec![2],
    ];
    kani::concrete_playback_run(concrete_vals, cur_step_remaining);
}
