// Counterexample found by Kani for harness verif_harness::c20::display_width_2
// bound: every ASCII string of 2 bytes (all 128 values per byte, incl. ESC/control/'m')
// failed check: assertion failed: w == ref_width(&b) @ ../../verif/harness/c20.rs:54:5 in function verif_harness::c20::display_width_h::<2>
// native replay: {'dev': ['panicked'], 'release-like': ['panicked']}
// to re-run: paste this test next to the harness (it is what `--concrete-playback=inplace` adds)
// and run: cargo kani playback -Z concrete-playback -- <test name>

/// Test generated for harness `verif_harness::c20::display_width_2` 
///
/// Check for `assertion`: "assertion failed: w == ref_width(&b)"

#[test]
fn kani_concrete_playback_display_width_2_9725443792300871540() {
    let concrete_vals: Vec<Vec<u8>> = vec![
        // 26
        vec![26],
        // 27
        vec![27],
    ];
    kani::concrete_playback_run(concrete_vals, display_width_2);
}
