#!/bin/bash
# Run checks against a seeded change: seed_eval.sh <patch.diff> <tier> <property ids...>
# Applies the patch to /repo, runs each check with --no-evidence, and ALWAYS restores /repo.
patch=$1; tier=$2; shift 2
cd /verif
export VERIF_REPLAY_DIR=/var/tmp/clap-verif/seed-replays
git -C /repo diff --quiet || { echo "/repo is dirty; refusing"; exit 9; }
git -C /repo apply "$patch" || { echo "patch does not apply to /repo"; exit 8; }
trap 'git -C /repo checkout -- . ; git -C /repo clean -fdq' EXIT
for p in "$@"; do
  out=$(./check $p --tier $tier --no-evidence 2>&1 | grep -v conda)
  rc=$?
  echo "== $p rc=$(echo "$out" | grep -c '^VIOLATION') violations; tail:"
  echo "$out" | grep -E "violated|VIOLATION|INCONCLUSIVE|^OK|failed check" | cut -c1-220 | head -12
done
