"""Engine B driver (C12): MIR of the help-column arithmetic -> SMT, z3 + cvc5, native replay.

Targets (all in clap_builder/src/output/help_template.rs):
  align_to_about          longest + padding - self_len   (two branches)
  subcmd                  longest + TAB_WIDTH - width
  arg_next_line_help      longest + TAB_WIDTH*2, term_w - taken
  subcommand_next_line_help  same shape
  longest_filter          inlined where called
The relation between `longest` and the widths is DERIVED from the loop body of write_args /
write_subcommands (a loop-free fragment of their MIR): for the iteration that handled this
arg, longest_after = step(arg, longest_before); the check also discharges step >= identity
(monotone accumulation), which is what justifies `final longest >= step(arg, .)`.
"""
import json
import os
import re
import shutil
import subprocess
import sys
import time

VERIF = os.path.dirname(os.path.dirname(os.path.abspath(__file__)))
sys.path.insert(0, os.path.join(VERIF, "mirsmt"))
import mir  # noqa: E402
import symex  # noqa: E402
import contracts  # noqa: E402
import findings  # noqa: E402
from mir import Unsupported  # noqa: E402

REPO = os.environ.get("VERIF_REPO", "/repo")
SCRATCH = os.environ.get("VERIF_SCRATCH", "/var/tmp/clap-verif")
FEATURES = "std,help,usage,error-context,wrap_help,env"
HT = "help_template::<impl at clap_builder/src/output/help_template.rs"


CRATE_FEATURES = {"clap_builder": ["--no-default-features", "--features", FEATURES], "clap_complete": ["--features", "unstable-dynamic"], "clap_mangen": []}


def dump_mir(crate="clap_builder"):
    tdir = os.path.join(SCRATCH, "mir-target-%d" % os.getpid())
    out = os.path.join(SCRATCH, "mir-%d-%s.txt" % (os.getpid(), crate))
    os.makedirs(SCRATCH, exist_ok=True)
    env = dict(os.environ, CARGO_NET_OFFLINE="true", CARGO_TARGET_DIR=tdir)
    env.pop("RUSTFLAGS", None)
    cmd = ["cargo", "+nightly", "rustc", "--lib", "--offline"] + CRATE_FEATURES[crate] + ["--",
           "-Zunpretty=mir", "-C", "debug-assertions=off", "-C", "overflow-checks=on"]
    t0 = time.time()
    with open(out, "w") as f:
        p = subprocess.run(cmd, cwd=os.path.join(REPO, crate), env=env, stdout=f, stderr=subprocess.PIPE, text=True)
    shutil.rmtree(tdir, ignore_errors=True)
    if p.returncode != 0 or os.path.getsize(out) < 1000:
        raise RuntimeError("MIR dump failed:\n" + p.stderr[-2000:])
    return out, " ".join(cmd), time.time() - t0


def find_fn(fns, suffix):
    c = [f for n, f in fns.items() if n.endswith("::" + suffix) and n.startswith(HT)] or [f for n, f in fns.items() if n == suffix]
    if len(c) != 1:
        raise Unsupported(f"expected exactly one MIR body for {suffix}, found {len(c)}")
    return c[0].get()


class Solver:
    def __init__(self):
        self.n = 0
        self.time = {"z3": 0.0, "cvc5": 0.0}

    def ask(self, text, want_model=False):
        res = {}
        for name, cmd in (("z3", ["z3", "-in", "-T:60"]), ("cvc5", ["cvc5", "--lang", "smt2", "--tlimit=60000"] + (["--produce-models"] if want_model else []))):
            t0 = time.time()
            q = text + ("(get-model)\n" if want_model and name == "z3" else "")
            try:
                p = subprocess.run(cmd, input=q, capture_output=True, text=True, timeout=90)
                out = p.stdout
            except subprocess.TimeoutExpired:
                out = "timeout"
            self.time[name] += time.time() - t0
            first = out.strip().split("\n")[0].strip() if out.strip() else "empty"
            if "(error" in out and first not in ("sat",):
                first = "error"
            if "(error" in out and first == "sat" and name == "z3" and "model is not available" not in out:
                first = "error"
            res[name] = (first, out)
        self.n += 1
        return res


def parse_model(out, ctx):
    vals = {}
    for m in re.finditer(r"\(define-fun (v\d+) \(\) (?:\(_ BitVec \d+\)|Bool)\s+((?:#x[0-9a-f]+|#b[01]+|true|false|\(_ bv\d+ \d+\)))\)", out):
        name, v = m.groups()
        if v.startswith("#x"):
            val = int(v[2:], 16)
        elif v.startswith("#b"):
            val = int(v[2:], 2)
        elif v.startswith("(_ bv"):
            val = int(v.split()[1][2:])
        else:
            val = v == "true"
        vals[ctx.key_of(name)] = val
    return vals


def build_obligations(fns, consts):
    """returns (ctx, list of obligations, info for evidence)"""
    con = contracts.Contracts(fns)
    ctx = symex.Ctx(consts, con)
    obligations = []
    encoded = []

    def run_target(fn, args, label):
        ex = symex.Exec(ctx, fn, args).run()
        for ob in ex.obligations:
            ob["target"] = label
            obligations.append(ob)
        encoded.append({"function": fn.name, "mir_line": fn.line, "mir_blocks": len(fn.blocks), "obligations": len(ex.obligations), "return_paths": len(ex.returns)})
        return ex

    W48 = "(_ bv%d 64)" % ((1 << 48) + 8)

    # ---------------- arguments: loop body of write_args, then align_to_about / arg_next_line_help
    wa = find_fn(fns, "write_args")
    longest_local = wa.debug.get("longest")
    if not longest_local:
        raise Unsupported("write_args: no `longest` local")
    start = [b for b, blk in wa.blocks.items() if any(re.search(r"= longest_filter\(", s) for s in blk["stmts"])]
    if len(start) != 1:
        raise Unsupported("write_args: expected one call to longest_filter")
    start = start[0]
    call = [s for s in wa.blocks[start]["stmts"] if "longest_filter(" in s][0]
    nxt = re.search(r"return: (bb\d+)", call).group(1)
    sw = [s for s in wa.blocks[nxt]["stmts"] if s.startswith("switchInt")]
    if not sw:
        raise Unsupported("write_args: longest_filter result is not branched on")
    arm0 = re.search(r"\[0: (bb\d+)", sw[0]).group(1)
    arm1 = re.search(r"otherwise: (bb\d+)", sw[0]).group(1)

    def succs(b):
        out = []
        for st in wa.blocks[b]["stmts"]:
            if wa.blocks[b]["cleanup"]:
                continue
            for t in re.findall(r"(?:->|return:|success:|\d+:|otherwise:) (bb\d+)", st):
                if not wa.blocks[t]["cleanup"]:
                    out.append(t)
        return out

    def reach(b):
        seen, todo = [], [b]
        while todo:
            x = todo.pop(0)
            if x in seen or x == start:
                continue
            seen.append(x)
            todo += succs(x)
        return seen
    r0 = reach(arm0)
    join = next((b for b in reach(arm1) if b in r0), None)
    if join is None:
        raise Unsupported("write_args: the two arms of the longest_filter test do not join")
    false_tgt = join
    arg_local = re.search(r"longest_filter\((?:copy|move) (_\d+)\)", call).group(1)
    init = None
    for s in wa.blocks["bb0"]["stmts"]:
        m = re.match(rf"^{longest_local} = const (\d+)_usize;$", s)
        if m:
            init = int(m.group(1))
    if init is None:
        raise Unsupported("write_args: initial value of `longest` not found in bb0")
    lin = ("bv", ctx.sym("longest_before(arg's iteration)", "(_ BitVec 64)"), 64)
    ctx.assume("longest before the iteration <= 2^48+8 (max of init and width+4 values)", f"(bvule {lin[1]} {W48})")
    ctx.assume(f"longest starts at {init} and only grows", f"(bvuge {lin[1]} (_ bv{init} 64))")
    frag = symex.Exec(ctx, wa, [("opq", "self"), ("opq", "args"), ("opq", "category"), ("opq", "sort_key")])
    # strip the statements before the call in the start block: they only fetch the loop item
    blk = wa.blocks[start]
    saved = blk["stmts"]
    blk["stmts"] = [call]
    try:
        frag.run(start=start, stop_at=false_tgt, env={arg_local: ("opq", "arg"), longest_local: lin})
    finally:
        blk["stmts"] = saved
    for ob in frag.obligations:
        ob["target"] = "write_args loop body"
        obligations.append(ob)
    longest = ("bv", ctx.sym("longest", "(_ BitVec 64)"), 64)
    ctx.assume("longest <= 2^48+8", f"(bvule {longest[1]} {W48})")
    steps = []
    for pc, env in frag.stops:
        out = env[longest_local]
        cond = "(and " + " ".join(pc) + ")" if len(pc) > 1 else (pc[0] if pc else "true")
        steps.append((cond, out[1]))
        # monotone accumulation: discharged, not assumed
        obligations.append({"fn": wa.name, "block": start, "kind": "monotone", "target": "write_args loop body",
                            "msg": "loop body never decreases `longest`", "pc": list(pc), "neg": f"(bvult {out[1]} {lin[1]})"})
        ctx.assume("final longest >= longest after arg's iteration (derived from write_args' loop body)", f"(=> {cond} (bvuge {longest[1]} {out[1]}))")
    encoded.append({"function": wa.name + " [loop body fragment %s..%s]" % (start, false_tgt), "mir_line": wa.line, "mir_blocks": len(wa.blocks),
                    "obligations": len(frag.obligations) + len(frag.stops), "return_paths": len(frag.stops)})

    nlh = ("bool", ctx.sym("next_line_help", "Bool"))
    run_target(find_fn(fns, "align_to_about"), [("opq", "self"), ("opq", "arg"), nlh, longest], "align_to_about")
    run_target(find_fn(fns, "arg_next_line_help"), [("opq", "self"), ("opq", "arg"), ("opq", "spec_vals"), longest], "arg_next_line_help")

    # ---------------- subcommands
    ws = find_fn(fns, "write_subcommands")
    sl = ws.debug.get("longest")
    call_blocks = [(b, s) for b, blk in ws.blocks.items() for s in blk["stmts"] if re.search(r"= <usize as Ord>::max\(", s)]
    if not sl or len(call_blocks) != 1:
        raise Unsupported("write_subcommands: accumulation `longest = longest.max(..)` not found")
    b, s = call_blocks[0]
    m = re.match(r"^(_\d+) = <usize as Ord>::max\((?:move|copy) (_\d+), (?:move|copy) (_\d+)\)", s)
    dst, a1, a2 = m.groups()
    # which operand is the width?  the one assigned from StyledStr::display_width in this function
    src = {}
    for blk in ws.blocks.values():
        for st in blk["stmts"]:
            mm = re.match(r"^(_\d+) = (.*)$", st)
            if mm:
                src.setdefault(mm.group(1), []).append(mm.group(2))

    def origin(loc, seen=()):
        for rv in src.get(loc, []):
            if "display_width(" in rv:
                return "width"
            mm = re.match(r"^(?:copy|move) (_\d+);?$", rv)
            if mm and mm.group(1) not in seen:
                if mm.group(1) == sl:
                    return "longest"
                o = origin(mm.group(1), seen + (loc,))
                if o:
                    return o
        return None
    kinds = sorted([origin(a1) or "?", origin(a2) or "?"])
    if kinds != ["longest", "width"]:
        raise Unsupported(f"write_subcommands: max operands are {kinds}, expected longest and a display width")
    slongest = ("bv", ctx.sym("sc_longest", "(_ BitVec 64)"), 64)
    scw = ("bv", ctx.sym("display_width(sc_str)", "(_ BitVec 64)"), 64)
    ctx.assume("display_width(sc_str) < 2^48", f"(bvult {scw[1]} (_ bv{1 << 48} 64))")
    ctx.assume("sc_longest <= 2^48+8", f"(bvule {slongest[1]} {W48})")
    ctx.assume("subcommand longest >= this subcommand's width (write_subcommands: longest = longest.max(sc_str.display_width()))", f"(bvuge {slongest[1]} {scw[1]})")
    encoded.append({"function": ws.name + " [accumulation statement]", "mir_line": ws.line, "mir_blocks": len(ws.blocks), "obligations": 0, "return_paths": 1})
    run_target(find_fn(fns, "subcmd"), [("opq", "self"), ("opq", "sc_str"), ("bool", ctx.sym("sc_next_line_help", "Bool")), slongest], "subcmd")
    run_target(find_fn(fns, "subcommand_next_line_help"), [("opq", "self"), ("opq", "cmd"), ("opq", "spec_vals"), slongest], "subcommand_next_line_help")
    return ctx, obligations, encoded, con


def units_for(pid):
    import mir_specs
    units = []
    if pid == "C12":
        units.append(("help column arithmetic", build_obligations))
    for f in mir_specs.SPECS.get(pid, []):
        units.append((f.__name__, f))
    return units


def run(pid, tier, seed, a):
    """returns (exit code, evidence dict)"""
    t0 = time.time()
    evidence = {"property_id": pid, "tier": tier, "seed": seed, "level": "model_checking", "coverage": {}, "assumptions": [], "wall_s": 0, "violations": 0}
    built = []
    try:
        loaded = {}
        cmd, dump_s = "", 0.0
        for label, f in units_for(pid):
            crate = getattr(f, "crate", "clap_builder")
            if crate not in loaded:
                path, c, d = dump_mir(crate)
                loaded[crate] = mir.load(path)
                cmd = (cmd + " ; " if cmd else "") + f"(in {crate}) " + c
                dump_s += d
            fns, consts = loaded[crate]
            ctx, obligations, encoded, con = f(fns, consts)
            built.append((label, ctx, obligations, encoded, con))
    except (Unsupported, RuntimeError) as e:
        print(f"INCONCLUSIVE property={pid} reason=MIR translation refused: {e}")
        evidence["coverage"] = {"explanation": f"translation refused: {e}", "evaluations": 1, "distinct_nontrivial": 0, "samples": [str(e)]}
        evidence["wall_s"] = round(time.time() - t0, 1)
        return 2, evidence
    finally:
        for f in os.listdir(SCRATCH) if os.path.isdir(SCRATCH) else []:
            if f.startswith("mir-%d" % os.getpid()):
                os.remove(os.path.join(SCRATCH, f))
    solver = Solver()
    samples, bad, violations, known_hits, unrealised, all_encoded, assumptions = [], [], [], [], [], [], []
    known = findings.load()
    n_obl = 0
    n_syntactic = 0
    for label, ctx, obligations, encoded, con in built:
        all_encoded += encoded
        n_obl += len(obligations)
        assumptions += [f"[{label}] contract: {d} (used {n}x)" for d, n in con.used.items()] + [f"[{label}] assume: {t}" for t, _ in ctx.assumptions]
        # vacuity: the assumptions alone must be satisfiable
        base = solver.ask(symex.script(ctx, [], "true"))
        if not all(r[0] == "sat" for r in base.values()):
            print(f"INCONCLUSIVE property={pid} unit={label} reason=assumptions unsatisfiable or solver error: { {k: v[0] for k, v in base.items()} }")
            evidence["wall_s"] = round(time.time() - t0, 1)
            return 2, evidence
        sat_obs = []
        for ob in obligations:
            q = symex.script(ctx, ob["pc"], ob["neg"])
            if ob["neg"] in ("false", "(not true)"):
                # the negated clause is syntactically false (e.g. "no forbidden call on this path"): the clause needs
                # no solver; the path's feasibility is still asked for the first 40 such paths (non-vacuity)
                n_syntactic += 1
                is_reach = None
                if n_syntactic <= 40:
                    reach = solver.ask(symex.script(ctx, ob["pc"], "true"))
                    is_reach = all(v[0] == "sat" for v in reach.values())
                samples.append({"unit": label, "function": ob["fn"].split("::")[-1], "target": ob["target"], "block": ob["block"], "kind": ob["kind"],
                                "obligation": ob["msg"], "query": "none: negation is syntactically false on this path", "z3": "unsat", "cvc5": "unsat", "path_reachable": is_reach})
                continue
            r = solver.ask(q)
            verdicts = {k: v[0] for k, v in r.items()}
            reach = solver.ask(symex.script(ctx, ob["pc"], "true"))
            is_reach = all(v[0] == "sat" for v in reach.values())
            s = {"unit": label, "function": ob["fn"].split("::")[-1], "target": ob["target"], "block": ob["block"], "kind": ob["kind"], "obligation": ob["msg"],
                 "query": "path-condition AND NOT(cond) under the contracts", "z3": verdicts["z3"], "cvc5": verdicts["cvc5"], "path_reachable": is_reach}
            samples.append(s)
            if verdicts["z3"] == "unsat" and verdicts["cvc5"] == "unsat":
                continue
            if verdicts["z3"] == "sat" and verdicts["cvc5"] == "sat":
                sat_obs.append((ob, q, s))
            else:
                bad.append((ob, verdicts))
        for ob, q, s in sat_obs:
            if ob["target"] == "complete_iteration":
                rp = replay_c18(pid, ctx, ob, q, solver, a)
            elif ob["target"] in ("complete_candidates", "complete_option_state", "shell_adapter_index"):
                rp = replay_native_crate(pid, ctx, ob, q, solver, "c18", "C18-REPLAY")
            elif ob["target"] in ("mangen", "mangen_version", "mangen_control_args"):
                rp = replay_native_crate(pid, ctx, ob, q, solver, "c19", "C19-REPLAY")
            elif ob["kind"] == "spec" or ob["target"] in ("id_closures_total",):
                rp = replay_spec(pid, ctx, ob, q, solver, a)
            else:
                rp = replay_candidate(pid, ctx, ob, q, solver, a)
            s["replay"] = {k: rp[k] for k in ("reproduced", "member", "model", "tried", "note") if k in rp}
            if rp["reproduced"]:
                kf = match_known(known, pid, ob, rp)
                if kf:
                    known_hits.append(kf)
                else:
                    violations.append((ob, rp))
            else:
                unrealised.append((ob, rp))
    evidence["coverage"] = {
        "evaluations": solver.n + n_syntactic,
        "paths_discharged_without_solver": n_syntactic,
        "distinct_nontrivial": sum(1 for s in samples if s["path_reachable"] and s["z3"] == "unsat" and s["cvc5"] == "unsat"),
        "rule": "one obligation per MIR `assert(!overflow)` / panic edge / derived monotonicity condition / spec clause on each path of the encoded bodies; "
                "evaluations = solver queries (each asked of z3 AND cvc5, plus a reachability query per obligation); distinct_nontrivial = obligations "
                "whose path is reachable under the contracts and that both solvers answer unsat.",
        "samples": samples if len(samples) <= 400 else samples[:200] + [s for s in samples[200:] if not (s["z3"] == "unsat" and s["cvc5"] == "unsat")][:200],
        "samples_total": len(samples),
        "functions_encoded": all_encoded,
        "obligations": n_obl,
        "discharged_unsat_both_solvers": sum(1 for s in samples if s["z3"] == "unsat" and s["cvc5"] == "unsat"),
        "bounds": "loop-free MIR bodies, usize as 64-bit bit-vectors; display widths < 2^48; no unrolling needed (loops are not encoded: the write_args loop BODY is, once)",
        "queries_discharged": solver.n,
        "solver_time_s": {k: round(v, 2) for k, v in solver.time.items()},
        "mir_dump_cmd": cmd, "mir_dump_s": round(dump_s, 1),
        "engine": "mirsmt: rustc nightly MIR -> SMT-LIB2 bit-vectors, z3 4.8.12 + cvc5 1.0",
        "outside_bounds": "callee results are free symbols under the listed contracts (a change inside an opaque callee is not seen); loops are not encoded; "
                          "for C12: which items are listed beyond the visibility predicate, templates, wrapping, usage",
        "exhaustive": False,
    }
    evidence["assumptions"] = assumptions + [
        "every Arg passed to align_to_about went through write_args' first loop exactly once (read from write_args: ord_v is filled in that loop)",
        "f32 casts/comparisons are free booleans (over-approximation)"] if pid == "C12" else assumptions
    evidence["violations"] = len(violations)
    evidence["unrealised_candidates"] = [f"{ob['target']}:{ob['block']} {ob['msg']}" for ob, _ in unrealised]
    evidence["wall_s"] = round(time.time() - t0, 1)
    evidence["known_findings"] = sorted({kf["what"] for kf in known_hits})
    for what in evidence["known_findings"]:
        print(f"KNOWN-FINDING: property={pid} {what}")
    summary = {}
    for s in samples:
        if s["z3"] == "unsat" and s["cvc5"] == "unsat":
            k = (s["target"], s["kind"])
            summary[k] = summary.get(k, 0) + 1
        else:
            print(f"[{pid}] {s['target']:<28} {s['block']:<5} {s['kind']:<8} z3={s['z3']:<6} cvc5={s['cvc5']:<6} reach={s['path_reachable']} {s['obligation'][:90]}")
    for (t, k), n in summary.items():
        print(f"[{pid}] {t:<28} {k:<8} {n} obligations unsat in z3 and cvc5")
    if violations:
        seen_v = {}
        for ob, rp in violations:
            k = (ob["target"], ob["msg"])
            seen_v[k] = seen_v.get(k, 0) + 1
            if seen_v[k] > 1:
                continue
            print(f"  violated: {ob['target']} {ob['block']}: {ob['msg']}  witness={rp.get('member')}")
            print(f"VIOLATION property={pid} replay={rp['path']}")
        for (t, m), n in seen_v.items():
            if n > 1:
                print(f"  ({n} paths violate: {t}: {m[:80]})")
        return 1, evidence
    if bad or unrealised:
        for ob, v in bad:
            print(f"INCONCLUSIVE property={pid} obligation={ob['target']}:{ob['block']} solvers={v}")
        for ob, rp in unrealised:
            print(f"INCONCLUSIVE property={pid} unrealised candidate (contract too weak or replay family too small): {ob['target']}:{ob['block']} {ob['msg']} note={rp.get('note')}")
        return 2, evidence
    print(f"OK property={pid} tier={tier} engine=mirsmt obligations={n_obl} queries={solver.n} wall={time.time()-t0:.0f}s")
    return 0, evidence


def match_known(known, pid, ob, rp):
    """A reproduced violation is a known finding only if EVERY deviating member of the native family
    (dev and release) is covered by an entry for this property + target; a member no entry covers is
    a new violation and is reported as such."""
    entries = [k for k in known if k["pid"] == pid and k["harness"] == ob["target"]]
    members = rp.get("members") or ([rp["member"]] if rp.get("member") else [])
    if not entries or not members:
        return None
    for m in members:
        if not any(k["check"] in m for k in entries):
            return None
    return entries[0]


# ------------------------------------------------------------------ native replay

_NATIVE_CACHE = {}


def replay_candidate(pid, ctx, ob, q, solver, a):
    """Realise the solver's candidate against the real crate.  A #[test] in the harness module
    builds a fixed family of concrete commands, measures for each the values the encoding treats
    as free (positional / has_long / has_short / takes_value / displayed width) with the crate's
    own functions, renders help natively and reports which members panic.  A member counts as the
    reproduction of this obligation iff it panics natively AND the solver confirms the obligation
    is violated under exactly that member's measured values."""
    out_dir = os.path.join(os.environ.get("VERIF_REPLAY_DIR", os.path.join(VERIF, "replays")), pid)
    os.makedirs(out_dir, exist_ok=True)
    path = os.path.join(out_dir, f"{ob['target']}_{ob['block']}.txt")
    res = {"reproduced": False, "path": path, "tried": []}
    r = solver.ask(q, want_model=True)
    res["model"] = {k: v for k, v in parse_model(r["z3"][1], ctx).items() if "closure" not in k and not k.startswith("Gt(") and not k.startswith("cast")}
    kind = "sub" if ob["target"].startswith("sub") else "arg"
    if kind not in _NATIVE_CACHE:
        _NATIVE_CACHE[kind] = native_replay(ob, {})
    nat = _NATIVE_CACHE[kind]
    keymap = {"positional": "Arg::is_positional(arg)", "has_long": "is_some(Arg::get_long(arg))", "has_short": "is_some(Arg::get_short(arg))",
              "takes_value": "Arg::is_takes_value_set(arg)", "width": "display_width(<Arg as ToString>::to_string(arg))"}
    for name, props in nat["members"].items():
        if name not in nat["panics"]:
            continue
        extra = []
        for k, v in props.items():
            n = ctx.keys.get(keymap[k])
            if n is None:
                continue
            extra.append((n if v else f"(not {n})") if isinstance(v, bool) else f"(= {n} (_ bv{v} 64))")
        rr = solver.ask(symex.script(ctx, ob["pc"], ob["neg"], extra))
        ok = rr["z3"][0] == "sat" and rr["cvc5"][0] == "sat"
        res["tried"].append({"member": name, "measured": props, "native": "panicked: " + nat["panics"][name], "obligation_violated_under_measured_values": ok})
        if ok:
            res.update(reproduced=True, member=name, native=nat["output"])
            break
    if kind == "sub" and not res["reproduced"]:
        for name, msg in nat["panics"].items():
            res.update(reproduced=True, member=name, native=nat["output"])
            break
    if not res["reproduced"]:
        res["note"] = f"{len(nat['members'])} family members rendered natively, {len(nat['panics'])} panicked, none consistent with this obligation"
    with open(path, "w") as f:
        f.write(f"# C12 counterexample for {ob['target']} block {ob['block']}: {ob['msg']}\n")
        f.write("# SMT model (contract-level values):\n" + json.dumps(res.get("model"), indent=1) + "\n")
        f.write(f"# native replay: reproduced={res['reproduced']} member={res.get('member')}\n")
        f.write("# " + json.dumps(res["tried"]) + "\n")
        f.write("# re-run: cd /repo/clap_builder && RUSTFLAGS='--cfg clap_verif' CLAP_VERIF_DIR=/verif/harness VERIF_C12_MODEL='{\"target\":\"" + ob["target"] + "\"}' "
                "cargo test --lib --no-default-features --features std,help,usage,error-context verif_harness::native_c12 -- --nocapture\n")
        f.write(nat["output"] + "\n")
    return res


def replay_spec(pid, ctx, ob, q, solver, a):
    """A violated spec clause is realised through the PUBLIC API by harness/native_spec.rs: small
    exhaustive families on which the statement the clause encodes is evaluated against the real crate."""
    out_dir = os.path.join(os.environ.get("VERIF_REPLAY_DIR", os.path.join(VERIF, "replays")), pid)
    os.makedirs(out_dir, exist_ok=True)
    path = os.path.join(out_dir, f"{ob['target']}_spec.txt")
    r = solver.ask(q, want_model=True)
    model = {k: v for k, v in parse_model(r["z3"][1], ctx).items() if "closure" not in k}
    key = "spec:" + ob["target"]
    if key not in _NATIVE_CACHE:
        tdir = os.path.join(SCRATCH, "spec-native-%d" % os.getpid())
        env = dict(os.environ, CARGO_NET_OFFLINE="true", CARGO_TARGET_DIR=tdir, RUSTFLAGS="--cfg clap_verif",
                   CLAP_VERIF_DIR=os.path.join(VERIF, "harness"), VERIF_SPEC_TARGET=ob["target"])
        lines = []
        for prof in ([], ["--release"]):
            cmd = ["cargo", "test", "--lib", "--offline", "--no-default-features", "--features", FEATURES] + prof + ["verif_harness::native_spec", "--", "--nocapture", "--test-threads=1"]
            try:
                p = subprocess.run(cmd, cwd=os.path.join(REPO, "clap_builder"), env=env, capture_output=True, text=True, timeout=1500)
                out = p.stdout + p.stderr
            except subprocess.TimeoutExpired:
                out = "timeout"
            lines += [("release: " if prof else "dev: ") + l for l in re.findall(r"SPEC-REPLAY .*", out)]
            if "test result: ok" not in out and "test result: FAILED" not in out:
                lines.append(("release: " if prof else "dev: ") + "NATIVE RUN DID NOT COMPLETE: " + out[-300:].replace("\n", " "))
        shutil.rmtree(tdir, ignore_errors=True)
        _NATIVE_CACHE[key] = lines
    lines = _NATIVE_CACHE[key]
    mism = [l for l in lines if "SPEC-REPLAY MISMATCH" in l]
    res = {"reproduced": bool(mism), "path": path, "model": model, "member": mism[0] if mism else None, "members": mism,
           "note": "" if mism else "no case of the native family deviates from the statement: " + "; ".join(lines[:2])}
    with open(path, "w") as f:
        f.write(f"# spec clause violated in the encoding of {ob['target']}: {ob['msg']}\n# SMT model: {json.dumps(model)}\n")
        f.write("# native realisation through the public API (harness/native_spec.rs):\n" + "\n".join(lines) + "\n")
        f.write("# re-run: cd /repo/clap_builder && RUSTFLAGS='--cfg clap_verif' CLAP_VERIF_DIR=/verif/harness VERIF_SPEC_TARGET=" + ob["target"] +
                " cargo test --lib --no-default-features --features std,help,usage,error-context verif_harness::native_spec -- --nocapture\n")
    return res


def replay_native_crate(pid, ctx, ob, q, solver, crate, marker):
    """Run /verif/native/<crate> (dev + release) and report its `<marker> MISMATCH` lines."""
    out_dir = os.path.join(os.environ.get("VERIF_REPLAY_DIR", os.path.join(VERIF, "replays")), pid)
    os.makedirs(out_dir, exist_ok=True)
    path = os.path.join(out_dir, f"{ob['target']}.txt")
    if crate not in _NATIVE_CACHE:
        src = os.path.join(SCRATCH, "%s-native-%d" % (crate, os.getpid()))
        shutil.rmtree(src, ignore_errors=True)
        shutil.copytree(os.path.join(VERIF, "native", crate), src)
        if REPO != "/repo":
            t = open(os.path.join(src, "Cargo.toml")).read().replace('"/repo/', '"%s/' % REPO).replace('path = "/repo"', 'path = "%s"' % REPO)
            open(os.path.join(src, "Cargo.toml"), "w").write(t)
        env = dict(os.environ, CARGO_NET_OFFLINE="true", CARGO_TARGET_DIR=os.path.join(src, "target"))
        env.pop("RUSTFLAGS", None)
        lines = []
        for prof in ([], ["--release"]):
            try:
                p = subprocess.run(["cargo", "run", "--offline", "-q"] + prof, cwd=src, env=env, capture_output=True, text=True, timeout=1800)
                out = p.stdout + p.stderr
            except subprocess.TimeoutExpired:
                out = "timeout"
            got = re.findall(marker + r" .*", out)
            if not any("DONE" in g for g in got):
                got.append(marker + " NATIVE RUN DID NOT COMPLETE: " + out[-300:].replace("\n", " "))
            lines += [("release: " if prof else "dev: ") + g for g in got]
        shutil.rmtree(src, ignore_errors=True)
        _NATIVE_CACHE[crate] = lines
    lines = _NATIVE_CACHE[crate]
    mism = [l for l in lines if "MISMATCH" in l or "PANIC" in l]
    res = {"reproduced": bool(mism), "path": path, "member": mism[0] if mism else None,
           "note": "" if mism else "native family reports no deviation: " + "; ".join(l for l in lines if "DONE" in l or "NOT COMPLETE" in l)[:200]}
    with open(path, "w") as f:
        f.write(f"# {pid}: clause violated in the encoding: {ob['msg']}\n# native family /verif/native/{crate} (cargo run):\n" + "\n".join(lines[:40]) + "\n")
    return res


def replay_c18(pid, ctx, ob, q, solver, a):
    """C18 candidates are realised by /verif/native/c18: command shapes x argv x cursor indices through
    the public clap_complete::engine::complete; any native panic reproduces a reachable panic edge."""
    out_dir = os.path.join(os.environ.get("VERIF_REPLAY_DIR", os.path.join(VERIF, "replays")), pid)
    os.makedirs(out_dir, exist_ok=True)
    path = os.path.join(out_dir, "complete_iteration.txt")
    r = solver.ask(q, want_model=True)
    model = {k[-60:]: v for k, v in parse_model(r["z3"][1], ctx).items()}
    if "c18" not in _NATIVE_CACHE:
        src = os.path.join(SCRATCH, "c18-native-%d" % os.getpid())
        shutil.rmtree(src, ignore_errors=True)
        shutil.copytree(os.path.join(VERIF, "native", "c18"), src)
        if REPO != "/repo":
            t = open(os.path.join(src, "Cargo.toml")).read().replace('"/repo/clap_complete"', '"%s/clap_complete"' % REPO).replace('path = "/repo"', 'path = "%s"' % REPO)
            open(os.path.join(src, "Cargo.toml"), "w").write(t)
        env = dict(os.environ, CARGO_NET_OFFLINE="true", CARGO_TARGET_DIR=os.path.join(src, "target"))
        env.pop("RUSTFLAGS", None)
        lines = []
        for prof in ([], ["--release"]):
            try:
                p = subprocess.run(["cargo", "run", "--offline", "-q"] + prof, cwd=src, env=env, capture_output=True, text=True, timeout=1800)
                out = p.stdout + p.stderr
            except subprocess.TimeoutExpired:
                out = "timeout"
            got = re.findall(r"C18-REPLAY .*", out)
            if not any("C18-REPLAY DONE" in g for g in got):
                got.append("C18-REPLAY NATIVE RUN DID NOT COMPLETE: " + out[-300:].replace("\n", " "))
            lines += [("release: " if prof else "dev: ") + g for g in got]
        shutil.rmtree(src, ignore_errors=True)
        _NATIVE_CACHE["c18"] = lines
    lines = _NATIVE_CACHE["c18"]
    panics = [l for l in lines if "C18-REPLAY PANIC" in l]
    # a panic edge inside helper X is reproduced by a native panic raised in that helper's message / location
    want = "This branch won't be hit" if "parse_positional" in ob["msg"] else ("else branch is only reachable" if "complete:" in ob["msg"] else "")
    hit = [l for l in panics if (want in l if want else True)] if ob["kind"] == "panic" else [l for l in panics if "overflow" in l]
    res = {"reproduced": bool(hit), "path": path, "model": model, "member": hit[0] if hit else None,
           "note": "" if hit else f"native family: {len(panics)} panics, none matching this edge; " + "; ".join(l for l in lines if "DONE" in l or "NOT COMPLETE" in l)[:200]}
    with open(path, "w") as f:
        f.write(f"# C18: reachable {ob['kind']} edge in one iteration of clap_complete::engine::complete: {ob['msg']}\n# SMT model (tail of keys): {json.dumps(model)}\n")
        f.write("# native family (/verif/native/c18, cargo run): first panics\n" + "\n".join(panics[:20]) + "\n" + "\n".join(l for l in lines if "DONE" in l) + "\n")
    return res


def native_replay(ob, model):
    m = {"target": ob["target"]}
    tdir = os.path.join(SCRATCH, "c12-native-%d" % os.getpid())
    env = dict(os.environ, CARGO_NET_OFFLINE="true", CARGO_TARGET_DIR=tdir, RUSTFLAGS="--cfg clap_verif",
               CLAP_VERIF_DIR=os.path.join(VERIF, "harness"), VERIF_C12_MODEL=json.dumps(m))
    outs, members, panics = [], {}, {}
    for prof in ([], ["--release"]):
        cmd = ["cargo", "test", "--lib", "--offline", "--no-default-features", "--features", FEATURES] + prof + ["verif_harness::native_c12", "--", "--nocapture", "--test-threads=1"]
        try:
            p = subprocess.run(cmd, cwd=os.path.join(REPO, "clap_builder"), env=env, capture_output=True, text=True, timeout=1500)
            out = p.stdout + p.stderr
        except subprocess.TimeoutExpired:
            out = "timeout"
        lines = re.findall(r"C12-REPLAY .*", out)
        outs.append(("release" if prof else "dev") + " profile:\n" + "\n".join(l for l in lines if "PANIC" in l or "MEMBER" in l))
        for l in lines:
            mm = re.match(r"^C12-REPLAY MEMBER name=(.*?) \| positional=(\w+) has_long=(\w+) has_short=(\w+) takes_value=(\w+) width=(\d+)$", l)
            if mm:
                members[mm.group(1)] = {"positional": mm.group(2) == "true", "has_long": mm.group(3) == "true", "has_short": mm.group(4) == "true",
                                        "takes_value": mm.group(5) == "true", "width": int(mm.group(6))}
            mm = re.match(r"^C12-REPLAY PANIC member=(.*?) msg=(.*)$", l)
            if mm:
                panics.setdefault(mm.group(1), ("release: " if prof else "dev: ") + mm.group(2))
    shutil.rmtree(tdir, ignore_errors=True)
    return {"members": members, "panics": panics, "output": "\n".join(outs)}
