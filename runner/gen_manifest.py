#!/usr/bin/env python3
"""Generate MANIFEST.json from the tables below (kept in one place so it stays valid)."""
import json
import os

VERIF = os.path.dirname(os.path.dirname(os.path.abspath(__file__)))

KANI = "Kani 0.68 / CBMC 6.11 bounded model checking of the compiled real code (SAT, cadical)"
MIX = "Kani/CBMC harnesses + own MIR->SMT translation (z3 + cvc5) of loop-free decision kernels, native replay"
CLAIMED = {
    "C01": dict(
        text="PARTIAL (very thin). Solver-backed (MIR->SMT) check of ONE totality hazard: every closure of the parser/validator that is applied to ids drawn from the matcher (29 closures) never calls "
             "unwrap()/expect() directly on Command::find(id) - matcher ids include group ids, for which the lookup is None. Termination, the other expect(INTERNAL_ERROR_MSG)/unreachable! sites, "
             "error rendering and error-ignoring mode are NOT decided: the parse loop as a whole is out of reach (DESIGN 0). "
             "Plus short_cluster_resume: the bookkeeping behind parse_short_arg's debug assertion - the number of flags to skip when a cluster is revisited after a flag subcommand is counted on the cluster itself, "
             "cannot underflow, is reset before use and is written nowhere else.",
        note="Each closure body is executed from its MIR with all callees opaque; the lookup may be None is the only semantic fact used; realised natively through the public API.",
        ref="2 C01", technique="own MIR->SMT translation: panic-edge reachability in closure bodies, z3 + cvc5, native replay"),
    "C02": dict(
        text="PARTIAL. Solver-decided kernels the property's mechanisms bottom out in: (Kani) the value-count boundary (ValueRange predicates and From<range> impls, all usize values) and "
             "per-occurrence grouping in MatchedArg (short symbolic op sequences); (MIR->SMT) ArgMatcher::needs_more_vals == 'pending count < max' and Parser::verify_num_args accepting exactly "
             "the counts inside the declared range; react's delimiter loop contributes every piece of split(value, declared delimiter) unfiltered, and keeps a delimited value whole exactly under dont_delimit_trailing_values at or after the first "
             "trailing index (solver clause over the index arithmetic); parse_long_arg / parse_short_arg return MaybeHyphenValue before any key lookup when the pending option OR positional allows hyphen values. "
             "Index bookkeeping: one pass of push_arg_values (one value, one index, in that order) and react's rule for the flag's own index; the positional-counter block (see C05) and short_cluster_resume (see C01). "
             "parse_long_arg never dispatches a long flag subcommand with an attached value; the first trailing index is recorded once (trailing_idx_once). Says nothing about the rest of token classification (DESIGN 0).",
        note="Kernel-level only. Trusted: rustc/Kani translation, std as compiled by Kani, CBMC; for the MIR kernels every callee is a pure opaque value (listed in the evidence).",
        ref="2 C02", technique=MIX),
    "C03": dict(
        text="PARTIAL (thin). (Kani) 'defaults never count as presence': MatchedArg::set_source/check_explicit over all source sequences of length <= 3. (MIR->SMT) the exclusive rule: "
             "Validator::validate_exclusive accepts without search iff at most one argument is explicitly present, counts as present exactly the explicit real arguments, and reports an argument "
             "iff it is exclusive and not alone. One pass of each loop of Validator::validate_required from an arbitrary state (who is reported missing; required_if_eq_any is any-of; the highest_index step) "
             "and the data flow of gather_arg_direct_conflicts (own conflicts, every group's conflicts, other members of a non-multiple group, overrides). "
             "MatchedArg::check_explicit: Equals(v) is decided by ANY raw value matching, case-folded iff ignore_case. Validator::validate's phases: conflicts are checked on every path that is not help/missing-subcommand, "
             "required is skipped iff subcommand_negates_reqs and a subcommand is present. "
             "The required graph (gather_requires / unrolling), conflict search over the matcher and is_missing_required_ok's body are opaque and not claimed.",
        note="Detects changes to check_explicit/set_source/is_explicit/ValueSource order, validate_exclusive and its closures, the loop bodies of validate_required and gather_arg_direct_conflicts only.",
        ref="2 C03", technique=MIX),
    "C04": dict(
        text="Bounded model checking of the value parsers' decisions: ranged integer parsers on CONCRETE boundary literals against EVERY range (lo, hi over all 64-bit values, "
             "9 bound shapes) for each target width; boolean literal tables with a symbolic ASCII case per letter; possible-value matching with symbolic case and ignore_case (Kani). "
             "Typed access (MIR->SMT): try_remove_arg_t / verify_arg_t decide by the type-id comparison and a failed remove re-inserts the entry on every path. "
             "The `value_parser(<range>)` sugar hands the ranged parser a range of the same kind with the input's bounds (MIR->SMT data flow). Fully symbolic candidate strings are out of reach (DESIGN 0).",
        note="Stubs cut message construction only (fmt::format, Error::with_cmd, Error::value_validation/invalid_value, format_bounds, usage for the non-UTF-8 path); "
             "str::to_lowercase is replaced by to_ascii_lowercase (std's contract on ASCII-only input; inputs are ASCII-only). Counterexamples of the heavy harnesses are realised by a native witness search.",
        ref="2 C04", technique=MIX),
    "C05": dict(
        text="PARTIAL (thin). Solver-backed path enumeration (MIR->SMT) of ONE iteration of Parser::parse's token loop entered with trailing_values == true (the bare `--` was seen): on every feasible path the token is "
             "not handed to subcommand recognition, long/short option parsing, the help subcommand or the 'looks like a new argument' test, and positional-only mode is still on when the loop continues. "
             "Escape detection from the state 'is_escape() and not yet trailing'; the positional-counter block from an arbitrary state: outside the look-ahead case the token goes to the `last` positional "
             "after `--` (when one exists or missing positionals are allowed), else to the current one; inside it the counter stays or advances by one. Value storage (react) is an opaque callee.",
        note="One loop body as a MIR fragment from an arbitrary state; inner loops are cut at their back edge; every callee is a pure opaque value; a path with a forbidden call must be infeasible "
             "(z3 + cvc5), realised natively through the public API otherwise.",
        ref="2 C05", technique="own MIR->SMT translation: path enumeration of a loop body, infeasibility of violating paths by z3 + cvc5, native replay"),
    "C06": dict(
        text="PARTIAL. (Kani) source lattice (ValueSource order, set_source keeps the maximum, explicit-ness) for all source sequences <= 3, and the implicit default / "
             "missing-value tables of every ArgAction incl. what Arg::_build installs. (MIR->SMT) fixed phase order of Parser::get_matches_with and its error-ignoring recovery closure: "
             "parse, resolve_pending, add_env, add_defaults, validate on every feasible path. add_env / add_default_value record only EnvVariable / DefaultValue, and supply a value only on paths where matcher.contains(this argument) was consulted and is false, at most once per argument. "
             "Parser::start_custom_arg removes overridden arguments only for a command-line occurrence (never for env/default values); check_explicit (see C03); under ignore_errors an error of resolve_pending goes through the same env/defaults recovery as an error of parse. "
             "What react does with such values is covered only as far as C02/C07 go.",
        note="Kernel-level only; callees of add_env/add_default_value are opaque.",
        ref="2 C06", technique=MIX),
    "C07": dict(
        text="PARTIAL. (Kani) action tables for every ArgAction and the default-action / value-count inference of Arg::_build for all num_args ranges, positional or not, 0-2 value names. "
             "(MIR->SMT) every return path of Parser::react classified by the action: Set/SetTrue/SetFalse report ArgumentConflict exactly when an earlier occurrence existed and neither args_override_self nor a "
             "self-override applies (else last wins), Append never removes earlier occurrences, Count is existing.saturating_add(1), SetTrue/SetFalse fill in true/false. "
             "remove_overrides: every overridden id and every collected overrider is removed (data flow through its loops); start_custom_arg calls it exactly for command-line occurrences; "
             "every action arm of react opens its occurrence through Parser::start_custom_arg exactly once before pushing values.",
        note="react's callees (ArgMatcher::remove, start_custom_arg, push_arg_values, ...) are opaque; its loops are cut at the back edge.",
        ref="2 C07", technique=MIX),
    "C08": dict(
        text="PARTIAL (thin). (Kani) lexer-level half of the spelling rewrites: '--name=value' split at the first '=', short cluster walk and exact remainder, "
             "strip of one leading '=' - for all byte strings up to the bound. (MIR->SMT) prefix inference never resolves an ambiguous prefix: possible_subcommand / possible_long_flag_subcommand return an "
             "inferred name only when the candidate iterator has no second element, parse_long_arg's uniqueness filter and candidate closure likewise; the hyphen-value guard of both classifiers (see C02); the candidate closures of inference (name first, else the first of ALL aliases / long-flag aliases that starts with the token). Alias keys and whole-ArgMatches equality are out of reach.",
        note="Re-uses C13/C14 harnesses over clap_lex; the candidate iterators themselves are opaque (what they enumerate is not decided).",
        ref="2 C08", technique=MIX),
    "C09": dict(
        text="PARTIAL (very thin). Data-flow check (MIR->SMT path enumeration, feasibility by z3 + cvc5) of Parser::parse_subcommand: on every feasible path the child parser and the child matcher are both created "
             "from the command returned by _build_subcommand(name), the child parser parses into the child's own matcher, the child's matches are attached to the parent matcher exactly once, and a child "
             "error is returned unless errors are ignored and it is a real error (a help/version request is always handed up). One pass of each loop of Command::_propagate_global_args: a subcommand is skipped iff it is named help AND the help subcommand is autogenerated, "
             "globals are cloned into a subcommand iff it does not define the id. The candidate closures of subcommand inference (see C08). One iteration of Parser::parse: a token is tested for being a subcommand only with subcommand precedence or outside an option's/positional's values. Exact-name recognition, external subcommands and how matches of globals are copied between levels are NOT decided.",
        note="All callees opaque; argument identity is tracked by the keys of opaque call results; realised natively by a 3-level command with same-named arguments.",
        ref="2 C09", technique="own MIR->SMT translation: call data-flow on paths, infeasibility of violating paths by z3 + cvc5, native replay"),
    "C10": dict(
        text="PARTIAL. (Kani) kind -> stream -> exit code for EVERY ErrorKind (exhaustive match, symbolic discriminant). (MIR->SMT) value-count verification: Parser::verify_num_args rejects "
             "exactly the counts outside the declared range and names the rule really broken (empty / wrong number / too few / too many), never when errors are ignored; the unknown-token triage of match_arg_error (which error for which situation); who is named missing by validate_required (one pass of each of its loops, see C03). "
             "The candidate closures of subcommand inference (a valid unique prefix of any alias is not an error; see C08). Validator::validate's phases incl. when help is shown instead of an error (arg_required_else_help counts arguments). "
             "Conflict justification and suggestions are out of reach.",
        note="Covers Error::new/stream/use_stderr/exit_code, verify_num_args, match_arg_error and the loop bodies of validate_required only.",
        ref="2 C10", technique=MIX),
    "C11": dict(
        text="PARTIAL (very thin). MIR->SMT path enumeration of Command::_build_self: on every feasible path where the Built flag is already set nothing else is called (a second build is a no-op), and every path "
             "that does build sets the flag before returning (33 paths; inner loops cut). bin_name_twins: the per-parse and the build-time computation of subcommand usage names agree on when the required-arguments infix is used "
             "(solver, 580 paths) and on how the parent prefix is taken - the latter FAILS on the pinned tree for no_binary_name(true) and is a recorded known finding (DESIGN 1.5(9)). "
             "Determinism of parsing and the key cache are NOT decided.",
        note="All callees opaque; paths through loop bodies are cut at the back edge (their zero-iteration exits are explored). Realised natively by building three times / re-parsing after a failed parse.",
        ref="2 C11", technique="own MIR->SMT translation: call presence on paths, infeasibility of violating paths by z3 + cvc5, native replay"),
    "C12": dict(
        text="PARTIAL. Solver-decided (MIR->SMT, z3 + cvc5) absence of integer overflow/underflow in the help column arithmetic (align_to_about, subcmd, arg_next_line_help, subcommand_next_line_help, "
             "with longest_filter and Arg::is_positional inlined; the link between `longest` and the widths is derived from the MIR of write_args' loop body incl. a discharged monotonicity obligation), "
             "functional equivalence of the visibility predicates should_show_arg / should_show_subcommand with their documented rule; the possible-values block of HelpTemplate::help reaches its "
             "`.max().expect()` only when some possible value is shown; one pass of Usage::write_args' positional loop skips a hidden positional before anything is rendered or stored for it; option_sort_key is injective on ASCII short flags (no visible option overwrites another in the help map; across kinds it is NOT - a recorded known finding, DESIGN 1.5(12)); "
             "AutoHelp::write_help picks the listing template iff an argument is shown or a subcommand is visible. "
             "Says nothing about section assembly, templates or wrapping.",
        note="Call results (display widths, Arg getters) are free symbols under the contracts listed in the evidence; loops are not encoded (one loop body is); "
             "a sat answer is only reported after a native replay on a family of concrete commands misbehaves.",
        ref="2 C12", technique="own MIR->SMT-LIB2 translation of loop-free scalar kernels (bit-vectors), z3 + cvc5, native replay"),
    "C13": dict(
        text="Bounded model checking of the real clap_lex through its public API: for EVERY byte string of each length up to the bound (all 256 values per byte) "
             "the classification is consistent, to_long re-assembles, the short-cluster walk and next_value_os return exactly the unread bytes, number shapes match a reference DFA; "
             "Kani's memory-safety checks cover the unsafe re-slicing. Nothing is claimed beyond the length bound.",
        note="Bound: quick L<=3 (to_long L<=4), thorough L<=5/6. Trusted: std (from_utf8, CharIndices) as compiled by Kani; oracle UTF-8 validator tested against std natively.",
        ref="2 C13"),
    "C14": dict(
        text="Bounded model checking of OsStrExt helpers against a naive byte-window search (all haystacks up to 4-5 bytes x all well-formed needles of 1-2 bytes) and of the "
             "RawArgs cursor against an index model: one operation from an arbitrary reachable state (inductive step) plus symbolic op sequences up to 3-5; insert from concrete index states.",
        note="Bounds in evidence. insert with symbolic index is beyond CBMC (17-24 GB) and is checked from each of the 6 concrete index states of a 3-item list.",
        ref="2 C14"),
    "C18": dict(
        text="PARTIAL (thin). Solver-decided (MIR->SMT, z3 + cvc5) panic- and overflow-freedom of ONE iteration of clap_complete::engine::complete's shadow-parse loop from an ARBITRARY state "
             "(parse state, positional index, escape flag, current command havoc'd), with parse_positional / parse_opt_value executed from their own MIR and opt_allows_hyphen / pos_allows_hyphen inlined. "
             "complete_arg: on every Ok path hidden candidates are filtered (retain(!hidden) iff any(!hidden)) BEFORE the de-duplication by id; the subcommand level is advanced by Command::find_subcommand(value) "
             "and nothing else; an option awaits a value only if it takes values and none was attached; a word is looked up as a subcommand only before `--` and in state ValueDone (or with subcommand precedence). The five shell adapters' write_complete have no reachable integer overflow edge. What complete_option / complete_subcommand / complete_arg_value enumerate and the adapters' output format are not decided.",
        note="One loop body as a MIR fragment; callees other than the four helpers are opaque pure values; counters bounded by 2^48; candidates are realised by /verif/native/c18 through the public API.",
        ref="2 C18", technique="own MIR->SMT translation of a loop body (bit-vectors), z3 + cvc5, native replay"),
    "C19": dict(
        text="PARTIAL (thin). MIR->SMT (z3 + cvc5) on clap_mangen: each of the 8 hidden-item filter closures (synopsis, options, subcommands, possible values, per-subcommand pages, has-arguments / has-subcommands "
             "predicates) equals `!item.is_hide_set()`, every loop of render::synopsis over arguments/positionals and every consumer of get_arguments in the options section runs over such a filter, and Man::render emits its sections once each in the fixed order with OPTIONS / SUBCOMMANDS / VERSION present iff their guard predicate holds. "
             "The version section has no unwrap on a possibly absent version; arguments of roff requests (.SH/.TH) are literals or pass through a line-break-removing function. "
             "Panics elsewhere in rendering, determinism, and the escaping done by the third-party roff crate for text lines are NOT decided.",
        note="The section renderers and iterator adaptors are opaque; that the filters are applied to every item is trusted. Realised natively by /verif/native/c19 (32 hide/version/author combinations rendered).",
        ref="2 C19", technique="own MIR->SMT translation: closure equivalence and call order on paths, z3 + cvc5, native replay"),
    "C20": dict(
        text="PARTIAL. (Kani) width accounting (display_width vs an ANSI-skip reference) and word splitting (find_words_ascii_space: consecutive non-empty pieces, cuts only at space->non-space) "
             "for EVERY ASCII string up to the length bound. (MIR->SMT) the loop BODY of LineWrapper::wrap equals the reference step from an arbitrary state (running width restarts from the re-emitted "
             "indent after a break, index skips the inserted items); StyledStr::wrap trims the rebuilt text at its end only. End-to-end wrap of whole texts is not decided.",
        note="Feature unicode off (every char width 1); ASCII alphabet (128 values per byte); the step's callees (display_width, trim_end, str::len, Vec::insert) are opaque pure values.",
        ref="2 C20", technique=MIX),
}

NOT_APPLICABLE = {
    "C15": "proc-macro translation running inside rustc plus generated code over a built Command: neither reachable by Kani nor a loop-free scalar kernel for the MIR->SMT engine",
    "C16": "every generator starts with cmd.build(); 'accepted by bash' is a statement about an external interpreter",
    "C17": "escapers are chains of String::replace: one symbolic char through fish's two replaces exceeded 10 GB/10 min; SMT string theory gave unknown; call sites need a built command",
}

PENDING = {}  # filled below when a check is not built yet


def main():
    checks = []
    for pid, c in CLAIMED.items():
        engine = "mirsmt" if pid == "C12" else "kani"
        checks.append({
            "property_id": pid,
            "quick_cmd": f"./check {pid} --tier quick",
            "thorough_cmd": f"./check {pid} --tier thorough",
            "evidence_file": f"/verif/evidence/{pid}.json",
            "replay_cmd_template": "cat {path}   # a Kani concrete-playback #[test]; header says how to run it natively",
            "engine": engine,
            "level_claimed": {"category": "model_checking", "text": c["text"], "design_ref": "DESIGN.md section " + c["ref"]},
            "level_note": c["note"],
            "technique": c.get("technique", KANI),
        })
    na = dict(NOT_APPLICABLE)
    na.update(PENDING)
    m = {
        "version": 1,
        "setup_cmd": "./setup.sh",
        "hooks": {
            "guard": "clap_verif",
            "enable": "RUSTFLAGS='--cfg clap_verif' CLAP_VERIF_DIR=/verif/harness cargo kani ... (run in /repo/clap_builder by runner/kani.py); clap_lex is checked through an external crate without hooks",
            "baseline_off_cmd": "cd /repo && cargo test --workspace --no-fail-fast --offline",
            "source_commits": ["ea274e7"],
            "add_only": True,
        },
        "engines": [
            {"name": "kani", "path": "/verif/runner/kani.py", "serves_properties": sorted(p for p in CLAIMED if p != "C12"),
             "kind_free_text": "Kani 0.68/CBMC 6.11 harnesses (kani/lex external crate; harness/*.rs included into clap_builder under cfg clap_verif); counterexamples replayed natively via concrete playback"},
            {"name": "mirsmt", "path": "/verif/runner/mir_check.py", "serves_properties": ["C01", "C02", "C03", "C04", "C05", "C06", "C07", "C08", "C09", "C10", "C11", "C12", "C18", "C19", "C20"],
             "kind_free_text": "MIR (cargo +nightly rustc -Zunpretty=mir, overflow checks on) of loop-free scalar functions -> SMT-LIB2 bit-vector queries (mirsmt/*.py), decided by z3 and cvc5; candidates realised by a native #[test] in the harness module"},
        ],
        "checks": checks,
        "not_applicable": [{"property_id": k, "reason": v} for k, v in sorted(na.items())],
        "notes": "Every verdict is 'holds for all inputs inside the bound stated in evidence/<id>.json'. exit 2 = inconclusive (timeout/OOM/vacuous harness/unreproduced counterexample), never reported as success. Known findings (genuine defects recorded rather than repaired) and the list of repaired ones are in /verif/known_findings.txt: currently three findings (C11 no_binary_name usage names; C12 sort-key collision between a short flag and a long-only option; C01/C02 a revisited short cluster taken whole as a hyphen value) and eighteen `fixed:` entries whose fix: commits are in /repo. See DESIGN.md 1.5.",
    }
    with open(os.path.join(VERIF, "MANIFEST.json"), "w") as f:
        json.dump(m, f, indent=1)
        f.write("\n")


if __name__ == "__main__":
    # properties with a design but no finished check yet are listed as not applicable *for now*
    PENDING.update({
    })
    for k in list(PENDING):
        if k in CLAIMED:
            del PENDING[k]
    main()
