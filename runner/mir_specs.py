"""Engine B, spec mode: loop-free decision kernels of clap_builder translated from MIR and
compared with a reference formula (functional equivalence / outcome classification).

Each spec returns (ctx, obligations, encoded, contracts) like mir_check.build_obligations.
In spec mode every callee without a contract is a PURE OPAQUE value of its arguments (reported
as an assumption): the kernels below only branch on scalars computed from such values.
"""
import os
import re
import sys

VERIF = os.path.dirname(os.path.dirname(os.path.abspath(__file__)))
sys.path.insert(0, os.path.join(VERIF, "mirsmt"))
import symex  # noqa: E402
import contracts  # noqa: E402
from mir import Unsupported  # noqa: E402


def _find(fns, file_part, method):
    c = [f for n, f in fns.items() if n.endswith("::" + method) and file_part in n] or [f for n, f in fns.items() if n == method]
    if len(c) != 1:
        raise Unsupported(f"expected exactly one MIR body for {method} in {file_part}, found {len(c)}")
    return c[0].get()


def _key_sym(ctx, pattern, sort):
    ks = [k for k in ctx.keys if re.search(pattern, k)]
    if len(ks) != 1:
        raise Unsupported(f"spec: expected exactly one symbol matching /{pattern}/, found {ks}")
    if ctx.decls[ctx.keys[ks[0]]] != sort:
        raise Unsupported(f"spec: symbol {ks[0]} has sort {ctx.decls[ctx.keys[ks[0]]]}, expected {sort}")
    return ctx.keys[ks[0]]


def _enc(fn, ex, extra=0):
    return {"function": fn.name, "mir_line": fn.line, "mir_blocks": len(fn.blocks), "obligations": len(ex.obligations) + extra, "return_paths": len(ex.returns)}


# ------------------------------------------------------------------ C12: visibility predicates

def spec_should_show_arg(fns, consts):
    con = contracts.Contracts(fns, default_pure=True)
    ctx = symex.Ctx(consts, con)
    fn = _find(fns, "", "should_show_arg")
    use_long = ("bool", ctx.sym("use_long", "Bool"))
    ex = symex.Exec(ctx, fn, [use_long, ("opq", "arg")]).run()
    hide = _key_sym(ctx, r"Arg::is_hide_set\(arg\)$", "Bool")
    hl = _key_sym(ctx, r"Arg::is_hide_long_help_set\(arg\)$", "Bool")
    hs = _key_sym(ctx, r"Arg::is_hide_short_help_set\(arg\)$", "Bool")
    nlh = _key_sym(ctx, r"Arg::is_next_line_help_set\(arg\)$", "Bool")
    ul = use_long[1]
    # documented rule: hidden args are never listed; otherwise listed unless hidden for THIS help
    # mode, and (as coded upstream) an arg with its own next-line help is listed in both modes
    spec = f"(and (not {hide}) (or (and (not {hl}) {ul}) (and (not {hs}) (not {ul})) {nlh}))"
    obs = list(ex.obligations)
    for (pc, val), _ in zip(ex.returns, ex.return_calls):
        if val[0] != "bool":
            raise Unsupported("should_show_arg does not return a bool")
        obs.append({"fn": fn.name, "block": "ret", "kind": "spec", "target": "should_show_arg",
                    "msg": "shown <=> !hide && ((!hide_long && long) || (!hide_short && !long) || next_line_help)", "pc": list(pc), "neg": f"(not (= {val[1]} {spec}))"})
    # and the consequence the property states: a hidden arg is never shown (redundant with the above, kept explicit)
    for pc, val in ex.returns:
        obs.append({"fn": fn.name, "block": "ret", "kind": "spec", "target": "should_show_arg", "msg": "hide(true) => never listed", "pc": list(pc), "neg": f"(and {hide} {val[1]})"})
    for o in obs:
        o.setdefault("target", "should_show_arg")
    return ctx, obs, [_enc(fn, ex, 2 * len(ex.returns))], con


def spec_should_show_subcommand(fns, consts):
    con = contracts.Contracts(fns, default_pure=True)
    ctx = symex.Ctx(consts, con)
    fn = _find(fns, "", "should_show_subcommand")
    ex = symex.Exec(ctx, fn, [("opq", "subcommand")]).run()
    hide = _key_sym(ctx, r"Command::is_hide_set\(subcommand\)$", "Bool")
    obs = list(ex.obligations)
    for pc, val in ex.returns:
        obs.append({"fn": fn.name, "block": "ret", "kind": "spec", "target": "should_show_subcommand", "msg": "shown <=> !hide", "pc": list(pc), "neg": f"(not (= {val[1]} (not {hide})))"})
    for o in obs:
        o.setdefault("target", "should_show_subcommand")
    return ctx, obs, [_enc(fn, ex, len(ex.returns))], con


# ------------------------------------------------------------------ C10 / C02: value-count verification

RANGE_INLINE = (r"^ValueRange::(min_values|max_values|num_values|is_fixed|accepts_more|takes_values|is_unbounded|is_multiple)$",)


def spec_verify_num_args(fns, consts):
    con = contracts.Contracts(fns, default_pure=True, extra_inline=RANGE_INLINE)
    ctx = symex.Ctx(consts, con)
    fn = _find(fns, "parser/parser.rs", "verify_num_args")
    ex = symex.Exec(ctx, fn, [("opq", "self"), ("opq", "arg"), ("opq", "raw_vals")]).run()
    ignore = _key_sym(ctx, r"Command::is_ignore_errors_set\(", "Bool")
    actual = _key_sym(ctx, r"^len\(raw_vals\)$", "(_ BitVec 64)")
    lo = _key_sym(ctx, r"expect\(Arg::get_num_args\(arg\).*\)\.0$", "(_ BitVec 64)")
    hi = _key_sym(ctx, r"expect\(Arg::get_num_args\(arg\).*\)\.1$", "(_ BitVec 64)")
    ctx.assume("ValueRange invariant: start_inclusive <= end_inclusive (ValueRange::raw)", f"(bvule {lo} {hi})")
    in_range = f"(and (bvule {lo} {actual}) (bvule {actual} {hi}))"
    obs = list(ex.obligations)
    kinds = {"empty_value": f"(and (= {actual} (_ bv0 64)) (bvugt {lo} (_ bv0 64)))",
             "wrong_number_of_values": f"(and (= {lo} {hi}) (not (= {actual} {lo})))",
             "too_few_values": f"(bvult {actual} {lo})",
             "too_many_values": f"(bvugt {actual} {hi})"}
    seen = set()
    for pc, val in ex.returns:
        if val[0] != "enum" or val[1] not in ("Ok", "Err"):
            raise Unsupported("verify_num_args: unexpected return value shape")
        if val[1] == "Ok":
            obs.append({"fn": fn.name, "block": "ret", "kind": "spec", "target": "verify_num_args", "msg": "accepted => ignore_errors or min <= count <= max",
                        "pc": list(pc), "neg": f"(not (or {ignore} {in_range}))"})
            continue
        key = val[2][1] if val[2] and val[2][0] == "opq" else ""
        m = re.search(r"Error(?:::<[^>]*>)?::(\w+)\(", key)
        if not m or m.group(1) not in kinds:
            raise Unsupported("verify_num_args: error path built by an unknown constructor: " + key[:80])
        k = m.group(1)
        seen.add(k)
        obs.append({"fn": fn.name, "block": "ret", "kind": "spec", "target": "verify_num_args", "msg": f"Err({k}) only when it is justified", "pc": list(pc), "neg": f"(not {kinds[k]})"})
        obs.append({"fn": fn.name, "block": "ret", "kind": "spec", "target": "verify_num_args", "msg": f"Err({k}) never for a count inside the range, never when ignoring errors", "pc": list(pc), "neg": f"(or {in_range} {ignore})"})
    if seen != set(kinds):
        raise Unsupported(f"verify_num_args: expected error constructors {sorted(kinds)}, saw {sorted(seen)}")
    for o in obs:
        o.setdefault("target", "verify_num_args")
    return ctx, obs, [_enc(fn, ex, 0)], con


def spec_needs_more_vals(fns, consts):
    con = contracts.Contracts(fns, default_pure=True, extra_inline=RANGE_INLINE)
    ctx = symex.Ctx(consts, con)
    fn = _find(fns, "parser/arg_matcher.rs", "needs_more_vals")
    ex = symex.Exec(ctx, fn, [("opq", "self"), ("opq", "o")]).run()
    pending = _key_sym(ctx, r"^Option::<usize>::unwrap_or\(", "(_ BitVec 64)")
    hi = _key_sym(ctx, r"expect\(Arg::get_num_args\(o\).*\)\.1$", "(_ BitVec 64)")
    obs = list(ex.obligations)
    for pc, val in ex.returns:
        obs.append({"fn": fn.name, "block": "ret", "kind": "spec", "target": "needs_more_vals", "msg": "another value is taken <=> pending count < max of the value range",
                    "pc": list(pc), "neg": f"(not (= {val[1]} (bvult {pending} {hi})))"})
    for o in obs:
        o.setdefault("target", "needs_more_vals")
    return ctx, obs, [_enc(fn, ex, len(ex.returns))], con


SPECS = {
    "C12": [spec_should_show_arg, spec_should_show_subcommand],
    "C10": [spec_verify_num_args],
    "C02": [spec_needs_more_vals, spec_verify_num_args],
}
