"""Engine B, spec mode: loop-free decision kernels of clap_builder translated from MIR and
compared with a reference formula (functional equivalence / outcome classification).

Each spec returns (ctx, obligations, encoded, contracts) like mir_check.build_obligations.
In spec mode every callee without a contract is a PURE OPAQUE value of its arguments (reported
as an assumption): the kernels below only branch on scalars computed from such values.
"""
import os
import re
import sys

VERIF = os.path.dirname(os.path.dirname(os.path.abspath(__file__)))
sys.path.insert(0, os.path.join(VERIF, "mirsmt"))
import symex  # noqa: E402
import contracts  # noqa: E402
from mir import Unsupported  # noqa: E402


def _find(fns, file_part, method):
    c = [f for n, f in fns.items() if n.endswith("::" + method) and file_part in n] or [f for n, f in fns.items() if n == method]
    if len(c) != 1:
        raise Unsupported(f"expected exactly one MIR body for {method} in {file_part}, found {len(c)}")
    return c[0].get()


def _key_sym(ctx, pattern, sort):
    ks = [k for k in ctx.keys if re.search(pattern, k)]
    if len(ks) != 1:
        raise Unsupported(f"spec: expected exactly one symbol matching /{pattern}/, found {ks}")
    if ctx.decls[ctx.keys[ks[0]]] != sort:
        raise Unsupported(f"spec: symbol {ks[0]} has sort {ctx.decls[ctx.keys[ks[0]]]}, expected {sort}")
    return ctx.keys[ks[0]]


def _enc(fn, ex, extra=0):
    return {"function": fn.name, "mir_line": fn.line, "mir_blocks": len(fn.blocks), "obligations": len(ex.obligations) + extra, "return_paths": len(ex.returns)}


# ------------------------------------------------------------------ C12: visibility predicates

def spec_should_show_arg(fns, consts):
    con = contracts.Contracts(fns, default_pure=True)
    ctx = symex.Ctx(consts, con)
    fn = _find(fns, "", "should_show_arg")
    use_long = ("bool", ctx.sym("use_long", "Bool"))
    ex = symex.Exec(ctx, fn, [use_long, ("opq", "arg")]).run()
    hide = _key_sym(ctx, r"Arg::is_hide_set\(arg\)$", "Bool")
    hl = _key_sym(ctx, r"Arg::is_hide_long_help_set\(arg\)$", "Bool")
    hs = _key_sym(ctx, r"Arg::is_hide_short_help_set\(arg\)$", "Bool")
    nlh = _key_sym(ctx, r"Arg::is_next_line_help_set\(arg\)$", "Bool")
    ul = use_long[1]
    # documented rule: hidden args are never listed; otherwise listed unless hidden for THIS help
    # mode, and (as coded upstream) an arg with its own next-line help is listed in both modes
    spec = f"(and (not {hide}) (or (and (not {hl}) {ul}) (and (not {hs}) (not {ul})) {nlh}))"
    obs = list(ex.obligations)
    for (pc, val), _ in zip(ex.returns, ex.return_calls):
        if val[0] != "bool":
            raise Unsupported("should_show_arg does not return a bool")
        obs.append({"fn": fn.name, "block": "ret", "kind": "spec", "target": "should_show_arg",
                    "msg": "shown <=> !hide && ((!hide_long && long) || (!hide_short && !long) || next_line_help)", "pc": list(pc), "neg": f"(not (= {val[1]} {spec}))"})
    # and the consequence the property states: a hidden arg is never shown (redundant with the above, kept explicit)
    for pc, val in ex.returns:
        obs.append({"fn": fn.name, "block": "ret", "kind": "spec", "target": "should_show_arg", "msg": "hide(true) => never listed", "pc": list(pc), "neg": f"(and {hide} {val[1]})"})
    for o in obs:
        o.setdefault("target", "should_show_arg")
    return ctx, obs, [_enc(fn, ex, 2 * len(ex.returns))], con


def spec_should_show_subcommand(fns, consts):
    con = contracts.Contracts(fns, default_pure=True)
    ctx = symex.Ctx(consts, con)
    fn = _find(fns, "", "should_show_subcommand")
    ex = symex.Exec(ctx, fn, [("opq", "subcommand")]).run()
    hide = _key_sym(ctx, r"Command::is_hide_set\(subcommand\)$", "Bool")
    obs = list(ex.obligations)
    for pc, val in ex.returns:
        obs.append({"fn": fn.name, "block": "ret", "kind": "spec", "target": "should_show_subcommand", "msg": "shown <=> !hide", "pc": list(pc), "neg": f"(not (= {val[1]} (not {hide})))"})
    for o in obs:
        o.setdefault("target", "should_show_subcommand")
    return ctx, obs, [_enc(fn, ex, len(ex.returns))], con


# ------------------------------------------------------------------ C10 / C02: value-count verification

RANGE_INLINE = (r"^ValueRange::(min_values|max_values|num_values|is_fixed|accepts_more|takes_values|is_unbounded|is_multiple)$",)


def spec_verify_num_args(fns, consts):
    con = contracts.Contracts(fns, default_pure=True, extra_inline=RANGE_INLINE)
    ctx = symex.Ctx(consts, con)
    fn = _find(fns, "parser/parser.rs", "verify_num_args")
    ex = symex.Exec(ctx, fn, [("opq", "self"), ("opq", "arg"), ("opq", "raw_vals")]).run()
    ignore = _key_sym(ctx, r"Command::is_ignore_errors_set\(", "Bool")
    actual = _key_sym(ctx, r"^len\(raw_vals\)$", "(_ BitVec 64)")
    lo = _key_sym(ctx, r"expect\(Arg::get_num_args\(arg\).*\)\.0$", "(_ BitVec 64)")
    hi = _key_sym(ctx, r"expect\(Arg::get_num_args\(arg\).*\)\.1$", "(_ BitVec 64)")
    ctx.assume("ValueRange invariant: start_inclusive <= end_inclusive (ValueRange::raw)", f"(bvule {lo} {hi})")
    in_range = f"(and (bvule {lo} {actual}) (bvule {actual} {hi}))"
    obs = list(ex.obligations)
    kinds = {"empty_value": f"(and (= {actual} (_ bv0 64)) (bvugt {lo} (_ bv0 64)))",
             "wrong_number_of_values": f"(and (= {lo} {hi}) (not (= {actual} {lo})))",
             "too_few_values": f"(bvult {actual} {lo})",
             "too_many_values": f"(bvugt {actual} {hi})"}
    seen = set()
    for pc, val in ex.returns:
        if val[0] != "enum" or val[1] not in ("Ok", "Err"):
            raise Unsupported("verify_num_args: unexpected return value shape")
        if val[1] == "Ok":
            obs.append({"fn": fn.name, "block": "ret", "kind": "spec", "target": "verify_num_args", "msg": "accepted => ignore_errors or min <= count <= max",
                        "pc": list(pc), "neg": f"(not (or {ignore} {in_range}))"})
            continue
        key = val[2][1] if val[2] and val[2][0] == "opq" else ""
        m = re.search(r"Error(?:::<[^>]*>)?::(\w+)\(", key)
        if not m or m.group(1) not in kinds:
            raise Unsupported("verify_num_args: error path built by an unknown constructor: " + key[:80])
        k = m.group(1)
        seen.add(k)
        obs.append({"fn": fn.name, "block": "ret", "kind": "spec", "target": "verify_num_args", "msg": f"Err({k}) only when it is justified", "pc": list(pc), "neg": f"(not {kinds[k]})"})
        obs.append({"fn": fn.name, "block": "ret", "kind": "spec", "target": "verify_num_args", "msg": f"Err({k}) never for a count inside the range, never when ignoring errors", "pc": list(pc), "neg": f"(or {in_range} {ignore})"})
    if seen != set(kinds):
        raise Unsupported(f"verify_num_args: expected error constructors {sorted(kinds)}, saw {sorted(seen)}")
    for o in obs:
        o.setdefault("target", "verify_num_args")
    return ctx, obs, [_enc(fn, ex, 0)], con


def spec_needs_more_vals(fns, consts):
    """needs_more_vals(o) <=> pending < max, where pending = (pending buffer belongs to o) ? number of
    raw argv tokens buffered : 0.  If the code no longer has that shape the clause is reported as
    violated-in-the-encoding and left to the native family to confirm or not (never a VIOLATION alone)."""
    con = contracts.Contracts(fns, default_pure=True, extra_inline=RANGE_INLINE)
    ctx = symex.Ctx(consts, con)
    fn = _find(fns, "parser/arg_matcher.rs", "needs_more_vals")
    ex = symex.Exec(ctx, fn, [("opq", "self"), ("opq", "o")]).run()
    obs = list(ex.obligations)

    def shape(msg, pc=()):
        obs.append({"fn": fn.name, "block": "shape", "kind": "spec", "target": "needs_more_vals", "msg": msg, "pc": list(pc), "neg": "true"})

    try:
        pending = _key_sym(ctx, r"^Option::<usize>::unwrap_or\(", "(_ BitVec 64)")
        hi = _key_sym(ctx, r"expect\(Arg::get_num_args\(o\).*\)\.1$", "(_ BitVec 64)")
        for pc, val in ex.returns:
            obs.append({"fn": fn.name, "block": "ret", "kind": "spec", "target": "needs_more_vals", "msg": "another value is taken <=> pending count < max of the value range",
                        "pc": list(pc), "neg": f"(not (= {val[1]} (bvult {pending} {hi})))"})
        calls = ex.return_calls[0] if ex.return_calls else ()
        if not (any(re.search(r"^Option::<&PendingArg>::and_then::<usize, \{closure", c) for c in calls)
                and any(re.search(r"^Option::<usize>::unwrap_or$", c) for c in calls)
                and re.search(r"unwrap_or\(.*,\(_ bv0 64\)\)$", [k for k in ctx.keys if k.startswith("Option::<usize>::unwrap_or(")][0])):
            shape("pending count is no longer `pending.as_ref().and_then(closure).unwrap_or(0)`")
    except Unsupported as e:
        shape("needs_more_vals no longer has the reference shape: " + str(e)[:100])
    enc = [_enc(fn, ex, len(ex.returns))]
    # the closure: Some(raw_vals.len()) iff the pending buffer's id equals the option's id
    try:
        clo = _find(fns, "parser/arg_matcher.rs", "needs_more_vals::{closure#0}")
        ex2 = symex.Exec(ctx, clo, [("opq", "clo_env"), ("opq", "p")]).run()
        obs += ex2.obligations
        ideq = _key_sym(ctx, r"^<Id as PartialEq>::eq\(", "Bool")
        vlen = _key_sym(ctx, r"^Vec::<OsString>::len\(p\.2\)$", "(_ BitVec 64)")
        for pc, val in ex2.returns:
            if val[0] != "option":
                shape("closure does not return `(id matches).then_some(len)`", pc)
                continue
            obs.append({"fn": clo.name, "block": "ret", "kind": "spec", "target": "needs_more_vals", "msg": "pending count = number of buffered raw argv tokens, only for the matching option",
                        "pc": list(pc), "neg": f"(not (and (= {val[1]} {ideq}) (= {val[2][1]} {vlen})))"})
        enc.append(_enc(clo, ex2, len(ex2.returns)))
    except Unsupported as e:
        shape("pending-count closure no longer has the reference shape: " + str(e)[:100])
    for o in obs:
        o.setdefault("target", "needs_more_vals")
    return ctx, obs, enc, con


SPECS = {
    "C12": [spec_should_show_arg, spec_should_show_subcommand],
    "C10": [spec_verify_num_args],
    "C02": [spec_needs_more_vals, spec_verify_num_args],
}


# ------------------------------------------------------------------ C20: the line filler's loop body

def spec_line_wrapper_step(fns, consts):
    """LineWrapper::wrap is a loop over words; its BODY is loop-free.  One iteration from an
    arbitrary state (i, line_width, hard_width, carry-over) is compared with the reference step:
        break   := i != 0 && hard_width < line_width + width(trimmed word)
        width'  := (break ? len(carry-over indent or "") : line_width) + width(trimmed) + trailing-space count
        i'      := i + 1 + (break ? 1 + (carry-over present ? 1 : 0) : 0)
    i.e. the running width restarts from the re-emitted indent after a break and otherwise grows."""
    con = contracts.Contracts(fns, default_pure=True)
    ctx = symex.Ctx(consts, con)
    fn = _find(fns, "textwrap/wrap_algorithms.rs", "wrap")
    i_local = fn.debug.get("i")
    if not i_local:
        raise Unsupported("LineWrapper::wrap: no local `i`")
    init = [b for b, blk in fn.blocks.items() if any(re.match(rf"^{i_local} = const 0_usize;?$", s) for s in blk["stmts"])]
    if len(init) != 1:
        raise Unsupported("LineWrapper::wrap: initialisation of `i` not found")
    g = [s for s in fn.blocks[init[0]]["stmts"] if s.startswith("goto -> ")]
    if not g:
        raise Unsupported("LineWrapper::wrap: loop header not found")
    header = re.match(r"goto -> (bb\d+)", g[0]).group(1)
    # follow the header to its switchInt: otherwise-target is the body
    b, body = header, None
    for _ in range(6):
        last = fn.blocks[b]["stmts"][-1]
        m = re.match(r"^switchInt\(.*\) -> \[0: (bb\d+), otherwise: (bb\d+)\];?$", last)
        if m:
            body = m.group(2)
            break
        m = re.search(r"return: (bb\d+)", last)
        if not m:
            break
        b = m.group(1)
    if not body:
        raise Unsupported("LineWrapper::wrap: loop condition not found")
    i_in = ("bv", ctx.sym("i", "(_ BitVec 64)"), 64)
    ex = symex.Exec(ctx, fn, [("opq", "self"), ("opq", "words")]).run(start=body, stop_at=header, env={i_local: i_in})
    B48 = "(_ bv%d 64)" % (1 << 48)
    hw = _key_sym(ctx, r"^self\.0$", "(_ BitVec 64)")
    lw = _key_sym(ctx, r"^self\.1$", "(_ BitVec 64)")
    w = _key_sym(ctx, r"^display_width\(.*trim_end\(", "(_ BitVec 64)")
    lens = [k for k in ctx.keys if re.match(r"^core::str::<impl str>::len\(", k)]
    l_trim = [k for k in lens if "trim_end(" in k]
    l_carry = [k for k in lens if "self.2" in k]
    l_word = [k for k in lens if k not in l_trim and k not in l_carry]
    if len(l_trim) != 1 or len(l_word) != 1 or len(l_carry) != 1:
        raise Unsupported(f"LineWrapper::wrap: unexpected str::len calls {lens}")
    lt, lword, lc = ctx.keys[l_trim[0]], ctx.keys[l_word[0]], ctx.keys[l_carry[0]]
    disc = _key_sym(ctx, r"^discr\(self\.2\)$", "(_ BitVec 64)")
    for t, smt in [("len(trim_end(word)) <= len(word) (std)", f"(bvule {lt} {lword})"), ("len(word) < 2^48", f"(bvult {lword} {B48})"),
                   ("line_width < 2^48", f"(bvult {lw} {B48})"), ("i < 2^48", f"(bvult {i_in[1]} {B48})"), ("len(carry-over) < 2^48", f"(bvult {lc} {B48})"),
                   ("Option discriminant is 0 or 1", f"(or (= {disc} (_ bv0 64)) (= {disc} (_ bv1 64)))")]:
        ctx.assume(t, smt)
    brk = f"(and (not (= {i_in[1]} (_ bv0 64))) (bvult {hw} (bvadd {lw} {w})))"
    has_c = f"(= {disc} (_ bv1 64))"
    d = f"(bvsub {lword} {lt})"
    spec_lw = f"(bvadd (ite {brk} (ite {has_c} {lc} (_ bv0 64)) {lw}) (bvadd {w} {d}))"
    spec_i = f"(bvadd {i_in[1]} (ite {brk} (ite {has_c} (_ bv3 64) (_ bv2 64)) (_ bv1 64)))"
    obs = list(ex.obligations)
    lw_place = [k for k in (ex.stops[0][1] if ex.stops else {}) if k.startswith("place:") and k.endswith(".1: usize)")]
    if len(lw_place) != 1:
        raise Unsupported("LineWrapper::wrap: store to self.line_width not found on the loop path")
    for pc, env in ex.stops:
        out_lw, out_i = env[lw_place[0]], env[i_local]
        obs.append({"fn": fn.name, "block": "body", "kind": "spec", "target": "line_wrapper_step", "msg": "line_width after one word = reference step (indent re-counted after a break)",
                    "pc": list(pc), "neg": f"(not (= {out_lw[1]} {spec_lw}))"})
        obs.append({"fn": fn.name, "block": "body", "kind": "spec", "target": "line_wrapper_step", "msg": "index advances past the inserted break and indent",
                    "pc": list(pc), "neg": f"(not (= {out_i[1]} {spec_i}))"})
    for o in obs:
        o.setdefault("target", "line_wrapper_step")
    return ctx, obs, [{"function": fn.name + f" [loop body {body}..{header}]", "mir_line": fn.line, "mir_blocks": len(fn.blocks),
                       "obligations": len(obs), "return_paths": len(ex.stops)}], con


SPECS["C20"] = [spec_line_wrapper_step]


# ------------------------------------------------------------------ C04: typed access

def spec_typed_remove(fns, consts):
    """ArgMatches::try_remove_arg_t: the type-id check decides, and a failed (wrong type) remove puts
    the entry back before reporting the error."""
    con = contracts.Contracts(fns, default_pure=True)
    ctx = symex.Ctx(consts, con)
    fn = _find(fns, "parser/matches/arg_matches.rs", "try_remove_arg_t")
    ex = symex.Exec(ctx, fn, [("opq", "self"), ("opq", "id")]).run()
    eq = _key_sym(ctx, r"^<AnyValueId as PartialEq>::eq\(", "Bool")
    obs = list(ex.obligations)
    n_err_after_remove = 0
    for (pc, val), calls in zip(ex.returns, ex.return_calls):
        if val[0] != "enum":
            raise Unsupported("try_remove_arg_t: unexpected return shape")
        removed = [i for i, c in enumerate(calls) if re.search(r"FlatMap::<.*>::(remove_entry|remove)(::<.*>)?$", c)]
        reinserted = [i for i, c in enumerate(calls) if re.search(r"FlatMap::<.*>::(insert|insert_unchecked)$", c)]
        took_type_check = any(re.search(r"AnyValueId as PartialEq>::(eq|ne)$", c) for c in calls)
        if val[1] == "Err" and removed and took_type_check:
            n_err_after_remove += 1
            ok = bool(reinserted) and reinserted[-1] > removed[-1]
            # a path that reports the type error without re-inserting must be infeasible
            obs.append({"fn": fn.name, "block": "ret", "kind": "spec", "target": "typed_remove", "msg": "Err(Downcast) after remove_entry => the entry was inserted back",
                        "pc": list(pc), "neg": "false" if ok else "true"})
            obs.append({"fn": fn.name, "block": "ret", "kind": "spec", "target": "typed_remove", "msg": "Err(Downcast) only when the stored type differs from the requested one",
                        "pc": list(pc), "neg": eq})
        if val[1] == "Ok" and val[2] is not None and val[2][0] == "enum" and val[2][1] == "Some":
            obs.append({"fn": fn.name, "block": "ret", "kind": "spec", "target": "typed_remove", "msg": "Ok(Some(values)) only when the stored type equals the requested one",
                        "pc": list(pc), "neg": f"(not {eq})"})
            if reinserted:
                raise Unsupported("try_remove_arg_t: successful remove re-inserts?")
    if n_err_after_remove == 0:
        raise Unsupported("try_remove_arg_t: no error path after the removal was found")
    for o in obs:
        o.setdefault("target", "typed_remove")
    return ctx, obs, [_enc(fn, ex, 0)], con


def spec_verify_arg_t(fns, consts):
    con = contracts.Contracts(fns, default_pure=True)
    ctx = symex.Ctx(consts, con)
    fn = _find(fns, "parser/matches/arg_matches.rs", "verify_arg_t")
    ex = symex.Exec(ctx, fn, [("opq", "self"), ("opq", "arg")]).run()
    eq = _key_sym(ctx, r"^<AnyValueId as PartialEq>::eq\(", "Bool")
    obs = list(ex.obligations)
    for pc, val in ex.returns:
        if val[0] != "enum":
            raise Unsupported("verify_arg_t: unexpected return shape")
        obs.append({"fn": fn.name, "block": "ret", "kind": "spec", "target": "typed_get", "msg": "typed get: Ok <=> stored type equals requested type",
                    "pc": list(pc), "neg": f"(not {eq})" if val[1] == "Ok" else eq})
    for o in obs:
        o.setdefault("target", "typed_get")
    return ctx, obs, [_enc(fn, ex, len(ex.returns))], con


SPECS["C04"] = [spec_typed_remove, spec_verify_arg_t]


# ------------------------------------------------------------------ C06: fixed phase order

def spec_phase_order(fns, consts):
    """Parser::get_matches_with and its error-recovery closure: on every path, values come from the
    command line first (parse, resolve_pending), then the environment (add_env), then defaults
    (add_defaults), and validation runs last.  Decided on call traces of the loop-free bodies; a path
    with a wrong order must be infeasible."""
    con = contracts.Contracts(fns, default_pure=True)
    ctx = symex.Ctx(consts, con)
    main = _find(fns, "parser/parser.rs", "get_matches_with")
    clo = _find(fns, "parser/parser.rs", "get_matches_with::{closure#0}")
    obs, enc = [], []
    order = ["parse", "resolve_pending", "add_env", "add_defaults", "validate"]

    def idx(calls, name):
        return [i for i, c in enumerate(calls) if re.search(r"(Parser::<'_>|Validator::<'_>)::" + name + r"$", c)]

    ex = symex.Exec(ctx, main, [("opq", "self"), ("opq", "matcher"), ("opq", "raw_args"), ("opq", "cursor")]).run()
    full = 0
    for (pc, val), calls in zip(ex.returns, ex.return_calls):
        pos = [idx(calls, n) for n in order]
        ok = True
        # each phase at most once, and in the fixed order; a later phase never without the earlier ones
        last = -1
        seen_gap = False
        for p in pos:
            if len(p) > 1:
                ok = False
            if p:
                if seen_gap or p[0] < last:
                    ok = False
                last = p[0]
            else:
                seen_gap = True
        if all(pos):
            full += 1
        obs.append({"fn": main.name, "block": "ret", "kind": "spec", "target": "phase_order",
                    "msg": "phases run in the order parse, resolve_pending, add_env, add_defaults, validate (prefix-closed)", "pc": list(pc), "neg": "false" if ok else "true"})
    if full == 0:
        raise Unsupported("get_matches_with: no path runs all five phases")
    enc.append(_enc(main, ex, len(ex.returns)))
    ex2 = symex.Exec(ctx, clo, [("opq", "closure_env"), ("opq", "err")]).run()
    both = 0
    for (pc, val), calls in zip(ex2.returns, ex2.return_calls):
        e, d = idx(calls, "add_env"), idx(calls, "add_defaults")
        ok = (not d) or (len(e) == 1 and len(d) == 1 and e[0] < d[0])
        both += bool(e and d)
        obs.append({"fn": clo.name, "block": "ret", "kind": "spec", "target": "phase_order",
                    "msg": "error-ignoring recovery: environment is applied before defaults", "pc": list(pc), "neg": "false" if ok else "true"})
    if both == 0:
        raise Unsupported("get_matches_with closure: recovery path with env and defaults not found")
    enc.append(_enc(clo, ex2, len(ex2.returns)))
    obs += ex.obligations + ex2.obligations
    for o in obs:
        o.setdefault("target", "phase_order")
    return ctx, obs, enc, con


SPECS["C06"] = [spec_phase_order]


# ------------------------------------------------------------------ C03: the exclusive rule

def spec_validate_exclusive(fns, consts):
    """Validator::validate_exclusive and its closures: presence is counted over EXPLICITLY present
    arguments that are real args (not groups); nothing to check when at most one is present;
    otherwise an exclusive one among them is a conflict.  Shape deviations are left to the native family."""
    con = contracts.Contracts(fns, default_pure=True)
    ctx = symex.Ctx(consts, con)
    fn = _find(fns, "parser/validator.rs", "validate_exclusive")
    obs, enc = [], []

    def shape(msg, pc=()):
        obs.append({"fn": fn.name, "block": "shape", "kind": "spec", "target": "validate_exclusive", "msg": msg, "pc": list(pc), "neg": "true"})

    try:
        ex = symex.Exec(ctx, fn, [("opq", "self"), ("opq", "matcher")]).run()
        obs += ex.obligations
        enc.append(_enc(fn, ex, len(ex.returns)))
        cnt = _key_sym(ctx, r" as Iterator>::count\(", "(_ BitVec 64)")
        seen = set()
        for (pc, val), calls in zip(ex.returns, ex.return_calls):
            late = any(re.search(r" as Iterator>::find_map::<", c) for c in calls)
            seen.add(late)
            if late:
                obs.append({"fn": fn.name, "block": "ret", "kind": "spec", "target": "validate_exclusive", "msg": "the conflict search runs only when more than one argument is explicitly present",
                            "pc": list(pc), "neg": f"(bvule {cnt} (_ bv1 64))"})
            else:
                if not (val[0] == "enum" and val[1] == "Ok"):
                    shape("early return is not Ok(())", pc)
                obs.append({"fn": fn.name, "block": "ret", "kind": "spec", "target": "validate_exclusive", "msg": "accepted without search only when at most one argument is explicitly present",
                            "pc": list(pc), "neg": f"(bvugt {cnt} (_ bv1 64))"})
        if seen != {True, False}:
            shape("validate_exclusive no longer has an early-accept path and a search path")
    except Unsupported as e:
        shape("validate_exclusive no longer has the reference shape: " + str(e)[:100])
    # closure#0: what counts as present
    try:
        c0 = _find(fns, "parser/validator.rs", "validate_exclusive::{closure#0}")
        e0 = symex.Exec(ctx, c0, [("opq", "c0env"), ("opq", "item")]).run()
        obs += e0.obligations
        ce = _key_sym(ctx, r"^MatchedArg::check_explicit\(item", "Bool")
        fs = _key_sym(ctx, r"^is_some\(command::Command::find\(c0env", "Bool")
        for pc, val in e0.returns:
            obs.append({"fn": c0.name, "block": "ret", "kind": "spec", "target": "validate_exclusive", "msg": "counted as present <=> explicitly present (not a default) and a real argument",
                        "pc": list(pc), "neg": f"(not (= {val[1]} (and {ce} {fs})))"})
        enc.append(_enc(c0, e0, len(e0.returns)))
        c2 = _find(fns, "parser/validator.rs", "validate_exclusive::{closure#2}::{closure#0}")
        e2 = symex.Exec(ctx, c2, [("opq", "c2env"), ("opq", "argref")]).run()
        obs += e2.obligations
        exs = _key_sym(ctx, r"^Arg::is_exclusive_set\(argref\)$", "Bool")
        ac = _key_sym(ctx, r"^c2env\.0$", "(_ BitVec 64)")
        for pc, val in e2.returns:
            obs.append({"fn": c2.name, "block": "ret", "kind": "spec", "target": "validate_exclusive", "msg": "reported <=> the argument is exclusive and is not alone",
                        "pc": list(pc), "neg": f"(not (= {val[1]} (and {exs} (bvugt {ac} (_ bv1 64)))))"})
        enc.append(_enc(c2, e2, len(e2.returns)))
    except Unsupported as e:
        shape("a closure of validate_exclusive no longer has the reference shape: " + str(e)[:100])
    for o in obs:
        o.setdefault("target", "validate_exclusive")
    return ctx, obs, enc, con


SPECS["C03"] = [spec_validate_exclusive]


# ------------------------------------------------------------------ C10: unknown-token triage

def spec_match_arg_error(fns, consts):
    """Parser::match_arg_error: each error constructor is reached only under the condition that justifies it."""
    con = contracts.Contracts(fns, default_pure=True)
    ctx = symex.Ctx(consts, con)
    fn = _find(fns, "parser/parser.rs", "match_arg_error")
    valid = ("bool", ctx.sym("valid_arg_found", "Bool"))
    trailing = ("bool", ctx.sym("trailing_values", "Bool"))
    ex = symex.Exec(ctx, fn, [("opq", "self"), ("opq", "arg_os"), valid, trailing, ("opq", "matcher")]).run()
    obs = list(ex.obligations)

    def shape(msg, pc=()):
        obs.append({"fn": fn.name, "block": "shape", "kind": "spec", "target": "match_arg_error", "msg": msg, "pc": list(pc), "neg": "true"})
    try:
        has_sub = _key_sym(ctx, r"Command::has_subcommands\(", "Bool")
        acws = _key_sym(ctx, r"Command::is_args_conflicts_with_subcommands_set\(", "Bool")
        ps = _key_sym(ctx, r"^is_some\(.*possible_subcommand\(", "Bool")
        cand_empty = _key_sym(ctx, r"^Vec::<String>::is_empty\(", "Bool")
        has_pos = _key_sym(ctx, r"Command::has_positionals\(", "Bool")
        infer = _key_sym(ctx, r"Command::is_infer_subcommands_set\(", "Bool")
    except Unsupported as e:
        shape("match_arg_error no longer has the reference shape: " + str(e)[:120])
        return ctx, obs, [_enc(fn, ex, 1)], con
    conflict = f"(and {has_sub} {acws} {valid[1]})"
    just = {
        "unnecessary_double_dash": f"(and {trailing[1]} {ps})",
        "subcommand_conflict": conflict,
        "invalid_subcommand": f"(and {has_sub} (not {conflict}) (not {cand_empty}))",
        "unrecognized_subcommand": f"(and {has_sub} (not {conflict}) {cand_empty} (or (not {has_pos}) {infer}))",
        "unknown_argument": f"(not (and {has_sub} (or {conflict} (not {cand_empty}) (not {has_pos}) {infer})))",
    }
    seen = set()
    for pc, val in ex.returns:
        key = val[1] if val[0] == "opq" else ""
        m = re.search(r"Error(?:::<[^>]*>)?::(\w+)\(", key)
        if not m or m.group(1) not in just:
            shape("an error path is built by an unknown constructor: " + key[:60], pc)
            continue
        k = m.group(1)
        seen.add(k)
        obs.append({"fn": fn.name, "block": "ret", "kind": "spec", "target": "match_arg_error", "msg": f"{k} only under its justifying condition", "pc": list(pc), "neg": f"(not {just[k]})"})
    if seen != set(just):
        shape(f"expected constructors {sorted(just)}, saw {sorted(seen)}")
    for o in obs:
        o.setdefault("target", "match_arg_error")
    return ctx, obs, [_enc(fn, ex, len(ex.returns))], con


SPECS["C10"].append(spec_match_arg_error)


# ------------------------------------------------------------------ C05: after the escape nothing is interpreted

def spec_trailing_positional(fns, consts):
    """One iteration of Parser::parse's token loop, entered with trailing_values == true (the bare
    `--` was seen earlier): on every path the token is NOT handed to any of the interpreters
    (subcommand recognition, long/short option parsing, help subcommand), and the flag is still set
    when the loop continues.  The loop body is executed as a MIR fragment from the block that binds
    the fetched token back to the loop header; everything it calls is opaque."""
    con = contracts.Contracts(fns, default_pure=True)
    ctx = symex.Ctx(consts, con)
    fn = _find(fns, "parser/parser.rs", "parse")
    tv = fn.debug.get("trailing_values")
    hdr = [b for b, blk in fn.blocks.items() if any(re.search(r"= RawArgs::next\(", s) for s in blk["stmts"])]
    if not tv or len(hdr) != 1:
        raise Unsupported("Parser::parse: token loop or `trailing_values` not found")
    header = hdr[0]
    nxt = re.search(r"return: (bb\d+)", [s for s in fn.blocks[header]["stmts"] if "RawArgs::next(" in s][0]).group(1)
    sw = [s for s in fn.blocks[nxt]["stmts"] if s.startswith("switchInt")]
    m = re.search(r"\[1: (bb\d+)", sw[0]) if sw else None
    if not m:
        raise Unsupported("Parser::parse: `while let Some(..)` shape not found")
    body = m.group(1)
    tok_local = re.match(r"^(_\d+) = RawArgs::next", [s for s in fn.blocks[header]["stmts"] if "RawArgs::next(" in s][0]).group(1)
    ex = symex.Exec(ctx, fn, [("opq", "self"), ("opq", "matcher"), ("opq", "raw_args"), ("opq", "cursor")])
    ex.run(start=body, stop_at=header, env={tv: ("bool", "true"), tok_local: ("opq", "next_token")}, havoc_unassigned=True, cut_loops=True)
    interp = r"Parser::<'_>::(possible_subcommand|possible_long_flag_subcommand|parse_long_arg|parse_short_arg|parse_help_subcommand|parse_subcommand|is_new_arg)$"
    # the body's own `pos_counter + 1` overflow asserts are not the subject here (the counter is a
    # havoc'd usize in this fragment; overflowing it needs 2^64 positionals) - they are dropped
    obs = [o for o in ex.obligations if o["kind"] not in ("assert", "panic")]
    n_pos = 0
    paths = [(pc, env.get("#calls", ()), env, True) for pc, env in ex.stops] + [(pc, calls, None, False) for (pc, _), calls in zip(ex.returns, ex.return_calls)] \
        + [(pc, env.get("#calls", ()), None, False) for pc, env in ex.cuts]
    for pc, calls, env, cont in paths:
        bad = [c for c in calls if re.search(interp, c)]
        n_pos += any(re.search(r"Parser::<'_>::(react|push_arg_values|resolve_pending)$|ArgMatcher::", c) for c in calls)
        obs.append({"fn": fn.name, "block": "body", "kind": "spec", "target": "trailing_positional", "msg": "after `--`: the token is not handed to subcommand/long/short/help interpretation" + (" (" + bad[0].split("::")[-1] + " called)" if bad else ""),
                    "pc": list(pc), "neg": "true" if bad else "false"})
        if cont:
            t = env.get(tv)
            obs.append({"fn": fn.name, "block": "body", "kind": "spec", "target": "trailing_positional", "msg": "after `--`: positional-only mode stays on for the next token",
                        "pc": list(pc), "neg": f"(not {t[1]})"})
    if not paths or n_pos == 0:
        raise Unsupported("Parser::parse: no path of the trailing-mode iteration stores a value (vacuous)")
    for o in obs:
        o.setdefault("target", "trailing_positional")
    return ctx, obs, [{"function": fn.name + f" [one loop iteration {body}..{header}, trailing_values = true]", "mir_line": fn.line, "mir_blocks": len(fn.blocks),
                       "obligations": len(obs), "return_paths": len(paths)}], con


def spec_escape_detected(fns, consts):
    """The same loop body, entered where the token is tested for being the bare `--`, in the scenario
    `is_escape() == true` and not yet in trailing mode: every feasible path either switches to
    positional-only mode (start_trailing called, flag true at the next iteration, the `--` itself is
    not stored or interpreted) or is the documented exception: the pending option/positional accepts
    hyphen values (is_allow_hyphen_values_set() was consulted and is true)."""
    con = contracts.Contracts(fns, default_pure=True, fixed={r"ParsedArg::<'_>::is_escape$": ("bool", "true")})
    ctx = symex.Ctx(consts, con)
    fn = _find(fns, "parser/parser.rs", "parse")
    tv = fn.debug.get("trailing_values")
    hdr = [b for b, blk in fn.blocks.items() if any(re.search(r"= RawArgs::next\(", s) for s in blk["stmts"])]
    esc = [b for b, blk in fn.blocks.items() if any(re.search(r"= ParsedArg::<'_>::is_escape\(", s) for s in blk["stmts"])]
    if not tv or len(hdr) != 1 or len(esc) != 1:
        raise Unsupported("Parser::parse: loop header / is_escape test not found exactly once")
    ex = symex.Exec(ctx, fn, [("opq", "self"), ("opq", "matcher"), ("opq", "raw_args"), ("opq", "cursor")])
    ex.run(start=esc[0], stop_at=hdr[0], env={tv: ("bool", "false")}, havoc_unassigned=True, cut_loops=True)
    obs = []   # overflow asserts / unreachable!() edges of the body are C01's subject, not this clause's
    interp = r"Parser::<'_>::(possible_subcommand|possible_long_flag_subcommand|parse_long_arg|parse_short_arg|parse_help_subcommand|parse_subcommand|react|push_arg_values)$"
    paths = [(pc, env.get("#calls", ()), env, True) for pc, env in ex.stops] + [(pc, calls, None, False) for (pc, _), calls in zip(ex.returns, ex.return_calls)] \
        + [(pc, env.get("#calls", ()), None, False) for pc, env in ex.cuts]
    n_switch = 0
    hyph = [k for k in ctx.keys if re.search(r"Arg::is_allow_hyphen_values_set\(", k)]
    for pc, calls, env, cont in paths:
        switched = any(re.search(r"ArgMatcher::start_trailing$", c) for c in calls)
        if switched:
            n_switch += 1
            bad = [c for c in calls if re.search(interp, c)]
            ok = cont and env.get(tv, ("bool", "false"))[1] == "true" and not bad
            obs.append({"fn": fn.name, "block": "escape", "kind": "spec", "target": "escape_detected", "msg": "`--` switches to positional-only mode and is itself neither stored nor interpreted",
                        "pc": list(pc), "neg": "false" if ok else "true"})
        else:
            # not switching is only allowed when an argument that accepts hyphen values is pending
            consulted = [ctx.keys[k] for k in hyph if any(ctx.keys[k] in c for c in pc)]
            if any(c in pc for c in consulted):
                neg = "false"   # the path condition itself contains "allows hyphen values" as a conjunct
            else:
                neg = "(not (or " + " ".join(consulted) + "))" if consulted else "true"
            obs.append({"fn": fn.name, "block": "escape", "kind": "spec", "target": "escape_detected", "msg": "`--` is left to the pending argument only if that argument allows hyphen values",
                        "pc": list(pc), "neg": neg})
    if n_switch == 0:
        raise Unsupported("Parser::parse: no path switches to trailing mode on `--` (vacuous)")
    for o in obs:
        o.setdefault("target", "escape_detected")
    return ctx, obs, [{"function": fn.name + f" [loop body from the is_escape test {esc[0]} to {hdr[0]}, scenario is_escape = true]", "mir_line": fn.line, "mir_blocks": len(fn.blocks),
                       "obligations": len(obs), "return_paths": len(paths)}], con


SPECS["C05"] = [spec_trailing_positional, spec_escape_detected]


# ------------------------------------------------------------------ C18: one step of the completion engine's shadow parse

def spec_complete_iteration(fns, consts):
    """clap_complete::engine::complete: one iteration of its token loop from an ARBITRARY state
    (next_state, pos_index, is_escaped, current command all havoc'd), with parse_positional,
    parse_opt_value, opt_allows_hyphen and pos_allows_hyphen executed from their own MIR: no panic
    edge (unreachable!/expect) and no integer overflow is reachable.  Every other callee is opaque."""
    con = contracts.Contracts(fns, default_pure=True, effects_inline=(r"^parse_positional$", r"^parse_opt_value$"),
                              extra_inline=(r"^opt_allows_hyphen$", r"^pos_allows_hyphen$"))
    ctx = symex.Ctx(consts, con)
    cands = [n for n in fns if n == "complete"]
    if len(cands) != 1:
        raise Unsupported("clap_complete: free function `complete` not found exactly once")
    fn = fns["complete"].get()
    hdr = [b for b, blk in fn.blocks.items() if any(re.search(r"= RawArgs::next\(", s) for s in blk["stmts"])]
    if len(hdr) != 1:
        raise Unsupported("complete: token loop not found")
    header = hdr[0]
    call = [s for s in fn.blocks[header]["stmts"] if "RawArgs::next(" in s][0]
    nxt = re.search(r"return: (bb\d+)", call).group(1)
    sw = [s for s in fn.blocks[nxt]["stmts"] if s.startswith("switchInt")]
    m = re.search(r"\[1: (bb\d+)", sw[0]) if sw else None
    if not m:
        raise Unsupported("complete: `while let Some(..)` shape not found")
    tok_local = re.match(r"^(_\d+) = RawArgs::next", call).group(1)
    ex = symex.Exec(ctx, fn, [("opq", "cmd"), ("opq", "args"), ("bv", ctx.sym("arg_index", "(_ BitVec 64)"), 64), ("opq", "current_dir")])
    ex.havoc_bound = 1 << 48
    ex.run(start=m.group(1), stop_at=header, env={tok_local: ("opq", "next_token")}, havoc_unassigned=True, cut_loops=True)
    for k, n in list(ctx.keys.items()):
        if ("@Pos" in k or "@Opt" in k) and ctx.decls[n] == "(_ BitVec 64)":
            ctx.assume(f"counter inside the parse state ({k[-24:]}) < 2^48", f"(bvult {n} (_ bv{1 << 48} 64))")
    obs = []
    for o in ex.obligations:
        o = dict(o)
        o["target"] = "complete_iteration"
        o["kind"] = "panic" if o["kind"] == "panic" else "assert"
        o["msg"] = ("in " + o.get("via", "complete") + ": ") + o["msg"]
        obs.append(o)
    n_paths = len(ex.stops) + len(ex.returns) + len(ex.cuts)
    if n_paths == 0 or not any(o["kind"] == "panic" for o in obs):
        raise Unsupported("complete: fragment has no paths or no panic edge was encoded (vacuous)")
    return ctx, obs, [{"function": "clap_complete::engine::complete [one loop iteration, arbitrary state; helpers executed from MIR]", "mir_line": fn.line,
                       "mir_blocks": len(fn.blocks), "obligations": len(obs), "return_paths": n_paths}], con


spec_complete_iteration.crate = "clap_complete"
SPECS["C18"] = [spec_complete_iteration]


# ------------------------------------------------------------------ C01: closures over matcher ids are total

def spec_id_closures_total(fns, consts):
    """Every closure in the parser/validator that is applied to ids drawn from the matcher (its item
    parameter is an `&Id`): ids in the matcher name arguments OR groups, and `Command::find(id)` is
    None for a group, so `unwrap()`/`expect()` directly on that lookup is a reachable panic."""
    con = contracts.Contracts(fns, default_pure=True)
    con.check_unwrap = r"^command::Command::find\("
    ctx = symex.Ctx(consts, con)
    obs, enc, examined, with_find = [], [], 0, 0
    for name, lazy in sorted(fns.items()):
        if "{closure#" not in name or not re.search(r"parser/(parser|validator|arg_matcher)\.rs", name):
            continue
        head = lazy.lines[0]
        if not re.search(r"_2: &+(?:util::id::)?Id\)|_2: &?\(&+(?:util::id::)?Id,", head):
            continue
        try:
            fn = lazy.get()
            args = [("opq", f"env{examined}")] + [("opq", f"id{examined}") for _ in fn.params[1:]]
            ex = symex.Exec(ctx, fn, args).run(cut_loops=True)
        except Unsupported as e:
            enc.append({"function": name + " [NOT ENCODED: " + str(e)[:60] + "]", "mir_line": lazy.lineno, "mir_blocks": 0, "obligations": 0, "return_paths": 0})
            continue
        examined += 1
        with_find += any("Command::find" in c for calls in ex.return_calls for c in calls)
        for o in ex.obligations:
            if o["kind"] == "panic" and "which can be None" in o["msg"]:
                o = dict(o)
                o["target"] = "id_closures_total"
                o["msg"] = f"{name.split('>::')[-1]}: " + o["msg"]
                obs.append(o)
        # one trivially-true obligation per encoded closure so that the evidence lists what was examined
        obs.append({"fn": name, "block": "ret", "kind": "spec", "target": "id_closures_total", "msg": f"{name.split('>::')[-1]}: examined ({len(ex.returns)} return paths)", "pc": [], "neg": "false"})
        enc.append(_enc(fn, ex, 1))
    if examined < 5 or with_find < 2:
        raise Unsupported(f"id closures: only {examined} encoded, {with_find} looking ids up (vacuous)")
    return ctx, obs, enc, con


SPECS["C01"] = [spec_id_closures_total]


# ------------------------------------------------------------------ C09: the recursive parse uses the subcommand's own definition and matcher

def spec_parse_subcommand(fns, consts):
    """Parser::parse_subcommand (data flow on every feasible path): the command returned by
    `_build_subcommand(name)` is the one the child parser AND the child matcher are created from;
    the child parser parses into the child matcher (not the parent's); the child's matches are
    attached to the PARENT matcher under the child's own name; a child error is returned unless
    errors are ignored."""
    con = contracts.Contracts(fns, default_pure=True)
    ctx = symex.Ctx(consts, con)
    fn = _find(fns, "parser/parser.rs", "parse_subcommand")
    keep = ("bool", ctx.sym("keep_state", "Bool"))
    ex = symex.Exec(ctx, fn, [("opq", "self"), ("opq", "sc_name"), ("opq", "parent_matcher"), ("opq", "raw_args"), ("opq", "cursor"), keep]).run(cut_loops=True)
    obs = list(o for o in ex.obligations if o["kind"] not in ("assert", "panic"))
    n_parse = 0
    for (pc, val), ca in zip(ex.returns, ex.return_callargs):
        def calls(rx):
            return [c for c in ca if re.search(rx, c[0])]
        build = calls(r"Command::_build_subcommand$")
        pnew, mnew = calls(r"Parser::<'_>::new$"), calls(r"ArgMatcher::new$")
        gm = calls(r"Parser::<'_>::get_matches_with$")
        attach = calls(r"ArgMatcher::subcommand$")
        ok, why = True, ""
        if gm:
            n_parse += 1
            sc = build[0][2] + "@Some.0" if build else "?"
            if not (len(pnew) == 1 and len(mnew) == 1 and pnew[0][1][0] == sc and mnew[0][1][0] == sc):
                ok, why = False, "child parser/matcher are not both created from the command returned by _build_subcommand"
            elif not (gm[0][1][0] == pnew[0][2] and gm[0][1][1] == mnew[0][2] and gm[0][1][1] != "parent_matcher"):
                ok, why = False, "the child parser does not parse into the child's own matcher"
            if val[0] == "enum" and val[1] == "Ok" and ok:
                if not (len(attach) == 1 and attach[0][1][0] == "parent_matcher"):
                    ok, why = False, "the child's matches are not attached to the parent matcher exactly once"
        elif attach:
            ok, why = False, "a subcommand is attached without having been parsed"
        obs.append({"fn": fn.name, "block": "ret", "kind": "spec", "target": "parse_subcommand", "msg": "recursive parse uses the subcommand's own definition and matcher" + (": " + why if why else ""),
                    "pc": list(pc), "neg": "false" if ok else "true"})
        if gm and val[0] == "enum" and val[1] == "Ok":
            # a failed child parse that is swallowed: only a REAL error under ignore_errors - a help / version
            # request of the subcommand (not use_stderr) is handed up like it is at the top level
            dgm = ctx.keys.get(f"discr({gm[0][2]})")
            if dgm and f"(= {dgm} (_ bv1 64))" in pc:
                ign = [k for k in ctx.keys if re.search(r"Command::is_ignore_errors_set\(", k)]
                us = [c for c in ca if re.search(r"Error(::<.*>)?::use_stderr$", c[0])]
                u = ctx.keys.get(us[0][2]) if us else ex.typed_fresh("absent:Error::use_stderr(child error)", "bool")[1]
                obs.append({"fn": fn.name, "block": "ret", "kind": "spec", "target": "parse_subcommand",
                            "msg": "a failed child parse is swallowed only under ignore_errors and only for a real error (use_stderr), never for a help/version request",
                            "pc": list(pc), "neg": f"(not (and {ctx.keys[ign[0]]} {u}))" if len(ign) == 1 else "true"})
        if val[0] == "enum" and val[1] == "Err":
            ign = [k for k in ctx.keys if re.search(r"Command::is_ignore_errors_set\(", k)]
            if not gm or len(ign) != 1:
                obs.append({"fn": fn.name, "block": "ret", "kind": "spec", "target": "parse_subcommand", "msg": "an error is returned without a failed child parse", "pc": list(pc), "neg": "true"})
            else:
                us = [c for c in ca if re.search(r"Error(::<.*>)?::use_stderr$", c[0])]
                u = ctx.keys.get(us[0][2]) if us else "true"
                obs.append({"fn": fn.name, "block": "ret", "kind": "spec", "target": "parse_subcommand", "msg": "a child error is returned unless errors are ignored and it is a real error (use_stderr)",
                            "pc": list(pc), "neg": f"(and {ctx.keys[ign[0]]} {u})"})
    if n_parse == 0:
        raise Unsupported("parse_subcommand: no path runs the child parser (vacuous)")
    for o in obs:
        o.setdefault("target", "parse_subcommand")
    return ctx, obs, [_enc(fn, ex, len(ex.returns))], con


SPECS["C09"] = [spec_parse_subcommand]


# ------------------------------------------------------------------ C11: building is idempotent (the Built flag)

def spec_build_once(fns, consts):
    """Command::_build_self: when the Built flag is already set nothing else is called (a second build
    is a no-op), and every path that does build sets the flag before returning."""
    con = contracts.Contracts(fns, default_pure=True)
    ctx = symex.Ctx(consts, con)
    fn = _find(fns, "builder/command.rs", "_build_self")
    expand = ("bool", ctx.sym("expand_help_tree", "Bool"))
    ex = symex.Exec(ctx, fn, [("opq", "self"), expand])
    ex.run(havoc_unassigned=True, cut_loops=True)
    built = [k for k in ctx.keys if re.search(r"AppFlags::is_set\(.*Built", k)]
    if len(built) != 1:
        raise Unsupported(f"_build_self: test of the Built flag not found exactly once ({len(built)})")
    b = ctx.keys[built[0]]
    obs = []
    n_noop = n_build = 0
    for (pc, val), ca in zip(ex.returns, ex.return_callargs):
        others = [c for c in ca if not re.search(r"AppFlags::is_set$|::get_name$", c[0])]
        sets_built = any(re.search(r"AppFlags::set$", c[0]) and any("Built" in a for a in c[1]) for c in ca)
        if b in pc:   # flag already set on this path
            n_noop += 1
            obs.append({"fn": fn.name, "block": "ret", "kind": "spec", "target": "build_once", "msg": "already built => nothing is rebuilt" + ("" if not others else f" ({others[0][0].split('::')[-1]} called)"),
                        "pc": list(pc), "neg": "false" if not others else "true"})
        else:
            n_build += 1
            obs.append({"fn": fn.name, "block": "ret", "kind": "spec", "target": "build_once", "msg": "a build marks the command as built", "pc": list(pc), "neg": "false" if sets_built else "true"})
    if n_noop == 0 or n_build == 0:
        raise Unsupported(f"_build_self: expected both a no-op path and building paths (got {n_noop}/{n_build})")
    for o in obs:
        o.setdefault("target", "build_once")
    return ctx, obs, [_enc(fn, ex, len(ex.returns))], con


SPECS["C11"] = [spec_build_once]


# ------------------------------------------------------------------ C19: man page section guards and hidden filters

MANGEN_HIDE_CLOSURES = [
    ("synopsis::{closure#1}", "options/positionals in the synopsis"),
    ("subcommands::{closure#0}", "subcommands section entries"),
    ("get_possible_values::{closure#0}", "possible values"),
    ("generate::{closure#0}", "per-subcommand pages"),
    ("_render_options_section::{closure#0}", "help headings"),
    ("_render_options_section::{closure#3}", "options section entries"),
    ("app_has_arguments::{closure#0}", "has-arguments predicate"),
    ("app_has_subcommands::{closure#0}", "has-subcommands predicate"),
]


def spec_mangen(fns, consts):
    """clap_mangen: (a) each hidden-item filter closure is exactly `!item.is_hide_set()`;
    (b) Man::render emits title, name, synopsis, description, then OPTIONS iff app_has_arguments,
    SUBCOMMANDS iff app_has_subcommands, EXTRA iff an after-help exists, VERSION iff app_has_version,
    AUTHORS iff an author is set - in that order, each at most once - and then writes the page."""
    con = contracts.Contracts(fns, default_pure=True)
    ctx = symex.Ctx(consts, con)
    obs, enc = [], []

    def shape(msg):
        obs.append({"fn": "clap_mangen", "block": "shape", "kind": "spec", "target": "mangen", "msg": msg, "pc": [], "neg": "true"})
    for i, (suffix, what) in enumerate(MANGEN_HIDE_CLOSURES):
        c = [f for n, f in fns.items() if n == suffix or n.endswith("::" + suffix)]
        if len(c) != 1:
            shape(f"hidden filter for {what} ({suffix}) not found")
            continue
        try:
            fn = c[0].get()
            ex = symex.Exec(ctx, fn, [("opq", f"env{i}"), ("opq", f"item{i}")]).run()
            hide = _key_sym(ctx, rf"::is_hide_set\(item{i}\)$", "Bool")
            for pc, val in ex.returns:
                obs.append({"fn": fn.name, "block": "ret", "kind": "spec", "target": "mangen", "msg": f"{what}: kept <=> not hidden", "pc": list(pc), "neg": f"(not (= {val[1]} (not {hide})))"})
            enc.append(_enc(fn, ex, len(ex.returns)))
        except Unsupported as e:
            shape(f"hidden filter for {what} no longer has the reference shape: " + str(e)[:80])
    # (c) every loop of render::synopsis over the command's arguments / positionals runs over an iterator
    #     filtered by a clap_mangen closure that is `!item.is_hide_set()` (hidden items are omitted from the SYNOPSIS too)
    syn = [f for n, f in fns.items() if n == "synopsis" or n.endswith("::synopsis")]
    if len(syn) != 1:
        shape("render::synopsis not found exactly once")
    else:
        sfn = syn[0].get()
        sex = symex.Exec(ctx, sfn, [("opq", "roff"), ("opq", "cmd")])
        sex.run(havoc_unassigned=True, cut_loops=True)
        loops = {}
        for ca in [env.get("#callargs", ()) for _, env in sex.cuts] + list(sex.return_callargs):
            for c in ca:
                if re.search(r" as IntoIterator>::into_iter$", c[0]) and ("Iter<'_, Arg>" in c[0] or "Iter<'_, clap::Arg>" in c[0]):
                    loops[c[0]] = c
        if not loops:
            shape("render::synopsis: no loop over arguments found")
        for name in sorted(loops):
            locs = re.findall(r"\{closure@clap_mangen/src/render\.rs:[\d: ]+\}", name)
            ok = False
            for loc in locs:
                try:
                    cf = _closure_fn(fns, loc)
                    cex = symex.Exec(ctx, cf, [("opq", "syn_env"), ("opq", "syn_item")]).run()
                    hk = [ctx.keys[k] for k in ctx.keys if re.search(r"::is_hide_set\(syn_item\)$", k)]
                    ok = ok or (len(cex.returns) == 1 and len(hk) == 1 and not cex.returns[0][0] and cex.returns[0][1][1] == f"(not {hk[0]})")
                except Unsupported:
                    pass
            what = "positionals" if "get_positionals" in name else "options"
            obs.append({"fn": sfn.name, "block": "loop", "kind": "spec", "target": "mangen", "msg": f"synopsis: the loop over {what} runs over items filtered by `!is_hide_set()`", "pc": [], "neg": "false" if ok else "true"})
        enc.append(_enc(sfn, sex, len(loops)))
    # (d) in the options section every consumer of `cmd.get_arguments()` goes through a `!is_hide_set()` filter first
    osec = [f for n, f in fns.items() if n.endswith("::_render_options_section")]
    if len(osec) != 1:
        shape("Man::_render_options_section not found exactly once")
    else:
        ofn = osec[0].get()
        oex = symex.Exec(ctx, ofn, [("opq", "self"), ("opq", "roff")])
        oex.run(havoc_unassigned=True, cut_loops=True)
        consumers = {}
        for ca in [env.get("#callargs", ()) for _, env in oex.cuts] + list(oex.return_callargs):
            for c in ca:
                if c[1] and re.match(r"^clap::Command::get_arguments\(", c[1][0]):
                    consumers[c[0]] = c
        if not consumers:
            shape("_render_options_section: no use of get_arguments found")
        for name in sorted(consumers):
            ok = False
            m = re.match(r"^<std::slice::Iter<'_, Arg> as Iterator>::filter::<(\{closure@clap_mangen/src/lib\.rs:[\d: ]+\})>$", name)
            if m:
                try:
                    cf = _closure_fn(fns, m.group(1))
                    cex = symex.Exec(ctx, cf, [("opq", "osec_env"), ("opq", "osec_item")]).run()
                    hk = [ctx.keys[k] for k in ctx.keys if re.search(r"::is_hide_set\(osec_item\)$", k)]
                    ok = len(cex.returns) == 1 and len(hk) == 1 and not cex.returns[0][0] and cex.returns[0][1][1] == f"(not {hk[0]})"
                except Unsupported:
                    ok = False
            obs.append({"fn": ofn.name, "block": "call", "kind": "spec", "target": "mangen", "msg": "options section: the command's arguments are consumed only through a `!is_hide_set()` filter (" + name.split(" as Iterator>::")[-1][:40] + ")",
                        "pc": [], "neg": "false" if ok else "true"})
        enc.append(_enc(ofn, oex, len(consumers)))
    r = [f for n, f in fns.items() if n.endswith(">::render") and "lib.rs" in n]
    if len(r) != 1:
        raise Unsupported("clap_mangen: Man::render not found exactly once")
    fn = r[0].get()
    ex = symex.Exec(ctx, fn, [("opq", "self"), ("opq", "w")]).run(cut_loops=True)
    order = ["_render_title", "_render_name_section", "_render_synopsis_section", "_render_description_section", "_render_options_section",
             "_render_subcommands_section", "_render_extra_section", "_render_version_section", "_render_authors_section"]
    guards = {"_render_options_section": r"^app_has_arguments\(", "_render_subcommands_section": r"^app_has_subcommands\(", "_render_version_section": r"^app_has_version\("}
    for (pc, val), ca in zip(ex.returns, ex.return_callargs):
        names = [c[0].split("::")[-1] for c in ca]
        secs = [n for n in names if n in order]
        ok = secs == [s for s in order if s in secs] and all(secs.count(s) == 1 for s in secs) and secs[:4] == order[:4] and any(n == "to_writer" for n in names)
        obs.append({"fn": fn.name, "block": "ret", "kind": "spec", "target": "mangen", "msg": "sections are rendered once each, in the fixed order, then written", "pc": list(pc), "neg": "false" if ok else "true"})
        for sec, rx in guards.items():
            g = [ctx.keys[k] for k in ctx.keys if re.search(rx, k)]
            if len(g) != 1:
                shape(f"guard of {sec} not found")
                continue
            present = sec in secs
            # section present on this path => guard true; absent => guard false
            obs.append({"fn": fn.name, "block": "ret", "kind": "spec", "target": "mangen", "msg": f"{sec} is rendered iff its guard holds", "pc": list(pc),
                        "neg": f"(not {g[0]})" if present else g[0]})
    enc.append(_enc(fn, ex, len(ex.returns)))
    for o in obs:
        o.setdefault("target", "mangen")
    return ctx, obs, enc, con


spec_mangen.crate = "clap_mangen"
SPECS["C19"] = [spec_mangen]


# ------------------------------------------------------------------ C08: an ambiguous prefix is never silently resolved

def spec_unique_prefix(fns, consts):
    """possible_subcommand / possible_long_flag_subcommand: a name found by PREFIX inference is returned
    only when the candidate iterator yields nothing after it (a second `next()` is None), only with
    inference enabled, and never when arguments conflict with subcommands and one was already seen.
    parse_long_arg's `iter.next().filter(|_| iter.next().is_none())` closure is exactly that test."""
    con = contracts.Contracts(fns, default_pure=True)
    ctx = symex.Ctx(consts, con)
    obs, enc = [], []

    def shape(msg, pc=()):
        obs.append({"fn": "parser.rs", "block": "shape", "kind": "spec", "target": "unique_prefix", "msg": msg, "pc": list(pc), "neg": "true"})
    for fname, args in (("possible_subcommand", lambda: [("opq", "self"), ("opq", "arg"), ("bool", ctx.sym("valid_arg_found", "Bool"))]),
                        ("possible_long_flag_subcommand", lambda: [("opq", "self"), ("opq", "arg")])):
        fn = _find(fns, "parser/parser.rs", fname)
        ex = symex.Exec(ctx, fn, args()).run(cut_loops=True)
        n_inf = 0
        for pc, val in ex.returns:
            key = val[1] if val[0] == "opq" else ""
            if "as Iterator>::next(" in key:
                n_inf += 1
                if "#call" in key:
                    shape(f"{fname}: a candidate other than the first one is returned", pc)
                    continue
                second = [ctx.keys[k] for k in ctx.keys if k.startswith("is_some(") and "as Iterator>::next(" in k and "#call1)" in k and re.search(r"\{closure@[^}]*\}", key).group(0) in k]
                infer = [ctx.keys[k] for k in ctx.keys if re.search(r"Command::is_infer_subcommands_set\(", k)]
                if len(second) != 1 or len(infer) != 1:
                    shape(f"{fname}: second `next()` / inference switch not found on the inference path", pc)
                    continue
                obs.append({"fn": fn.name, "block": "ret", "kind": "spec", "target": "unique_prefix", "msg": f"{fname}: an inferred name is returned only if no second candidate exists",
                            "pc": list(pc), "neg": second[0]})
                obs.append({"fn": fn.name, "block": "ret", "kind": "spec", "target": "unique_prefix", "msg": f"{fname}: prefix inference only when it is enabled",
                            "pc": list(pc), "neg": f"(not {infer[0]})"})
                if fname == "possible_subcommand":
                    acws = [ctx.keys[k] for k in ctx.keys if re.search(r"Command::is_args_conflicts_with_subcommands_set\(", k)]
                    if len(acws) == 1:
                        obs.append({"fn": fn.name, "block": "ret", "kind": "spec", "target": "unique_prefix", "msg": "no subcommand is recognised after an argument when arguments conflict with subcommands",
                                    "pc": list(pc), "neg": f"(and {acws[0]} {ctx.keys['valid_arg_found']})"})
        if n_inf == 0:
            shape(f"{fname}: no return path yields an inferred candidate")
        enc.append(_enc(fn, ex, len(ex.returns)))
    # the long-argument variant: the filter closure
    try:
        c1 = _find(fns, "parser/parser.rs", "parse_long_arg::{closure#1}")
        e1 = symex.Exec(ctx, c1, [("opq", "pla_env"), ("opq", "first_candidate")]).run()
        nxt = [ctx.keys[k] for k in ctx.keys if k.startswith("is_some(") and "as Iterator>::next(" in k and "pla_env" in k]
        if len(nxt) != 1:
            raise Unsupported("closure does not take exactly one further candidate")
        for pc, val in e1.returns:
            obs.append({"fn": c1.name, "block": "ret", "kind": "spec", "target": "unique_prefix", "msg": "parse_long_arg: an inferred long option is kept <=> the candidate iterator has no further element",
                        "pc": list(pc), "neg": f"(not (= {val[1]} (not {nxt[0]})))"})
        enc.append(_enc(c1, e1, len(e1.returns)))
    except Unsupported as e:
        shape("parse_long_arg's uniqueness filter no longer has the reference shape: " + str(e)[:90])
    # the candidate closure: an argument is a candidate through its long name OR any alias
    try:
        c0 = _find(fns, "parser/parser.rs", "parse_long_arg::{closure#0}")
        e0 = symex.Exec(ctx, c0, [("opq", "cand_env"), ("opq", "cand_arg")]).run(cut_loops=True)
        has_long = [ctx.keys[k] for k in ctx.keys if re.search(r"^is_some\(Arg::get_long\(cand_arg\)\)$", k)] + \
                   [ctx.keys[k] for k in ctx.keys if re.search(r"^discr\(Arg::get_long\(cand_arg\)\)$", k)]
        if not has_long:
            raise Unsupported("candidate closure does not look at the primary long name")
        for (pc, val), calls in zip(e0.returns, e0.return_calls):
            looked = any(re.search(r"as Iterator>::find_map::<", c) for c in calls)
            direct = val[0] == "enum" and val[1] == "Some"
            obs.append({"fn": c0.name, "block": "ret", "kind": "spec", "target": "unique_prefix", "msg": "parse_long_arg: every argument is a candidate through its long name or, failing that, its aliases",
                        "pc": list(pc), "neg": "false" if (looked or direct) else "true"})
        enc.append(_enc(c0, e0, len(e0.returns)))
    except Unsupported as e:
        shape("parse_long_arg's candidate closure no longer has the reference shape: " + str(e)[:90])
    for o in obs:
        o.setdefault("target", "unique_prefix")
    return ctx, obs, enc, con


SPECS["C08"] = [spec_unique_prefix]


# ------------------------------------------------------------------ C06: sources are reported honestly

def spec_value_sources(fns, consts):
    """Parser::add_default_value / add_defaults record values ONLY as ValueSource::DefaultValue and
    Parser::add_env ONLY as ValueSource::EnvVariable: on every path (loop bodies explored once, cut at
    the back edge) each call that stores a value (`react`, `start_custom_arg`) receives that variant."""
    con = contracts.Contracts(fns, default_pure=True)
    ctx = symex.Ctx(consts, con)
    obs, enc = [], []
    for fname, want in (("add_default_value", "DefaultValue"), ("add_env", "EnvVariable")):
        fn = _find(fns, "parser/parser.rs", fname)
        args = [("opq", "self")] + [("opq", f"a{i}") for i in range(len(fn.params) - 1)]
        ex = symex.Exec(ctx, fn, args)
        ex.run(havoc_unassigned=True, cut_loops=True)
        paths = [(pc, ca) for (pc, _), ca in zip(ex.returns, ex.return_callargs)] + [(pc, env.get("#callargs", ())) for pc, env in ex.cuts]
        n_store = 0
        for pc, ca in paths:
            for callee, argkeys, _ in ca:
                if not re.search(r"Parser::<'_>::(react|start_custom_arg)$", callee):
                    continue
                n_store += 1
                src = [k for k in argkeys if k.startswith("variant:ValueSource::")]
                ok = len(src) == 1 and src[0] == f"variant:ValueSource::{want}()"
                obs.append({"fn": fn.name, "block": "call", "kind": "spec", "target": "value_sources",
                            "msg": f"{fname}: values are recorded as {want}" + ("" if ok else f" (found {src})"), "pc": list(pc), "neg": "false" if ok else "true"})
        if n_store == 0:
            raise Unsupported(f"{fname}: no value-storing call found (vacuous)")
        enc.append(_enc(fn, ex, len(paths)))
    for o in obs:
        o.setdefault("target", "value_sources")
    return ctx, obs, enc, con


SPECS["C06"].append(spec_value_sources)
SPECS["C03"].append(spec_value_sources)


# ------------------------------------------------------------------ C07: the per-action reaction

def spec_react_actions(fns, consts):
    """Parser::react, every return path (loops cut), classified by the action's discriminant:
    Set / SetTrue / SetFalse report ArgumentConflict exactly when an earlier occurrence was removed and
    neither args_override_self nor a self-override is declared (otherwise last wins); Append never
    removes earlier occurrences; Count computes `existing.saturating_add(1)`; SetTrue / SetFalse fill in
    "true" / "false" for an occurrence without a value."""
    con = contracts.Contracts(fns, default_pure=True)
    ctx = symex.Ctx(consts, con)
    fn = _find(fns, "parser/parser.rs", "react")
    ex = symex.Exec(ctx, fn, [("opq", "self"), ("opq", "ident"), ("opq", "source"), ("opq", "arg"), ("opq", "raw_vals"), ("opq", "trailing_idx"), ("opq", "matcher")])
    ex.run(havoc_unassigned=True, cut_loops=True)
    dk = [k for k in ctx.keys if k == "discr(Arg::get_action(arg))"]
    if len(dk) != 1:
        raise Unsupported("react: the action is not matched on exactly once")
    d = ctx.keys[dk[0]]
    obs = []
    seen = {"conflict": 0, "lastwins": 0, "append": 0, "count": 0, "true": 0, "false": 0}
    names = {0: "Set", 1: "Append", 2: "SetTrue", 3: "SetFalse", 4: "Count"}

    def sym_in(pc, rx):
        ks = [ctx.keys[k] for k in ctx.keys if re.search(rx, k)]
        return [s for s in ks if any(re.search(r"(^|[ (])" + re.escape(s) + r"($|[ )])", c) for c in pc)]
    for (pc, val), ca in zip(ex.returns, ex.return_callargs):
        act = None
        for c in pc:
            m = re.match(r"^\(= " + re.escape(d) + r" \(_ bv(\d+) 64\)\)$", c)
            if m:
                act = int(m.group(1))
        if act not in names:
            continue
        callees = [c[0] for c in ca]
        removed = any(re.search(r"ArgMatcher::remove$", c) for c in callees)
        conflict = any(re.search(r"Error(::<[^>]*>)?::argument_conflict$", c) for c in callees)
        tag = names[act]
        if act in (0, 2, 3):
            rm = sym_in(pc, r"^ArgMatcher::remove\(")
            aos = sym_in(pc, r"Command::is_args_override_self\(")
            cont = sym_in(pc, r"::contains\(")
            if conflict:
                seen["conflict"] += 1
                if len(rm) == 1 and len(aos) == 1 and len(cont) == 1:
                    neg = f"(not (and {rm[0]} (not {aos[0]}) (not {cont[0]})))"
                else:
                    neg = "true"
                obs.append({"fn": fn.name, "block": "ret", "kind": "spec", "target": "react_actions", "msg": f"{tag}: a repeat is a conflict only if an earlier occurrence existed and self-override is off",
                            "pc": list(pc), "neg": neg})
            elif removed and val[0] == "enum" and val[1] == "Ok":
                seen["lastwins"] += 1
                neg = f"(and {rm[0]} (not {aos[0]}) (not {cont[0]}))" if (len(rm) == 1 and len(aos) == 1 and len(cont) == 1) else "false"
                obs.append({"fn": fn.name, "block": "ret", "kind": "spec", "target": "react_actions", "msg": f"{tag}: a repeat without self-override is never silently accepted",
                            "pc": list(pc), "neg": neg})
        if act == 1:
            seen["append"] += 1
            obs.append({"fn": fn.name, "block": "ret", "kind": "spec", "target": "react_actions", "msg": "Append keeps earlier occurrences (nothing is removed)", "pc": list(pc), "neg": "true" if removed else "false"})
        if act == 4:
            adds = [c for c in ca if re.search(r"(saturating_add|wrapping_add|checked_add|overflowing_add)$", c[0])]
            if adds:
                seen["count"] += 1
                ok = all(re.search(r"<impl u8>::saturating_add$", c[0]) and c[1][-1] == "(_ bv1 8)" for c in adds)
                obs.append({"fn": fn.name, "block": "ret", "kind": "spec", "target": "react_actions", "msg": "Count: next = existing.saturating_add(1) (saturates at 255)", "pc": list(pc), "neg": "false" if ok else "true"})
        lits = [a for c in ca for a in c[1] if a in ('str:"true"', 'str:"false"')]
        for lit in lits:
            want = {2: 'str:"true"', 3: 'str:"false"'}.get(act)
            seen["true" if lit == 'str:"true"' else "false"] += 1
            obs.append({"fn": fn.name, "block": "ret", "kind": "spec", "target": "react_actions", "msg": f"{tag}: an occurrence without a value means {want}", "pc": list(pc), "neg": "false" if lit == want else "true"})
    missing = [k for k, v in seen.items() if v == 0]
    if missing:
        obs.append({"fn": fn.name, "block": "shape", "kind": "spec", "target": "react_actions", "msg": f"react no longer has the reference shape: no path for {missing}", "pc": [], "neg": "true"})
    for o in obs:
        o.setdefault("target", "react_actions")
    return ctx, obs, [_enc(fn, ex, len(ex.returns))], con


SPECS["C07"] = [spec_react_actions]


# ------------------------------------------------------------------ C02: delimiter splitting keeps every piece

def spec_react_delimiter(fns, consts):
    """Parser::react's delimiter block (data flow on the paths through one pass of its loop): a raw value
    containing the declared delimiter is replaced by ALL pieces of `OsStrExt::split(value, delimiter)` -
    the split iterator is mapped to owned strings and extended into the new value list with no filter
    in between, the delimiter being the arg's `get_value_delimiter()`; a value without the delimiter
    (or a trailing value exempt from splitting) is pushed unchanged."""
    con = contracts.Contracts(fns, default_pure=True, option_eq=True)
    ctx = symex.Ctx(consts, con)
    fn = _find(fns, "parser/parser.rs", "react")
    ex = symex.Exec(ctx, fn, [("opq", "self"), ("opq", "ident"), ("opq", "source"), ("opq", "arg"), ("opq", "raw_vals"), ("opq", "trailing_idx"), ("opq", "matcher")])
    ex.run(havoc_unassigned=True, cut_loops=True)
    obs = []
    n_split = n_push = n_exempt = 0
    paths = [(pc, env.get("#callargs", ())) for pc, env in ex.cuts] + [(pc, ca) for (pc, _), ca in zip(ex.returns, ex.return_callargs)]
    for pc, ca in paths:
        splits = [c for c in ca if re.search(r"OsStrExt>::split$", c[0])]
        for sp in splits:
            n_split += 1
            ext = [c for c in ca if re.search(r"^<Vec<OsString> as Extend<OsString>>::extend::<", c[0]) and "OsStrExt>::split(" in c[1][1]]
            ok = (len(ext) == 1
                  and re.match(r"^<clap_lex::ext::Split<'_, '_> as Iterator>::map::<OsString, \{closure@[^}]*\}>\(<std::ffi::OsStr as clap_lex::OsStrExt>::split\(", ext[0][1][1]) is not None
                  and "filter" not in ext[0][0] and "filter" not in ext[0][1][1] and "take" not in ext[0][1][1] and "skip" not in ext[0][1][1]
                  and "Arg::get_value_delimiter(arg)" in sp[1][1])
            obs.append({"fn": fn.name, "block": "loop", "kind": "spec", "target": "react_delimiter", "msg": "a delimited value contributes every piece of split(value, declared delimiter), unfiltered",
                        "pc": list(pc), "neg": "false" if ok else "true"})
        n_push += any(re.search(r"^Vec::<OsString>::push$", c[0]) for c in ca)
        # (the trailing-value exemption is decided by the solver below, on the loop's back-edge states)
    # dont_delimit_trailing_values: a value CONTAINING the delimiter is kept whole exactly when the setting is on
    # and the value sits at or after the first trailing index (i >= trailing_idx); otherwise it is split.
    for pc, env in ex.cuts:
        ca = env.get("#callargs", ())
        cont = [c for c in ca if re.search(r"OsStrExt>::contains$", c[0])]
        nxt = [c for c in ca if re.search(r"^<Enumerate<std::vec::IntoIter<OsString>> as Iterator>::next$", c[0])]
        if not cont or not nxt or ctx.keys.get(cont[-1][2]) not in pc:
            continue
        whole = any(re.search(r"^Vec::<OsString>::push$", c[0]) and c[1][1].endswith("@Some.0.1") for c in ca)
        split = any(re.search(r"OsStrExt>::split$", c[0]) for c in ca)
        if whole == split:
            continue
        dd = ex.typed_fresh("command::Command::is_dont_delimit_trailing_values_set(self.0)", "bool")[1]
        some_t, t = contracts.Contracts.opt_parts(ex, env["_6"])
        i = ex.typed_fresh(nxt[-1][2] + "@Some.0.0", "usize")[1]
        exempt = f"(and {dd} {some_t} (bvule {t} {i}))" if t is not None else "false"
        n_exempt += whole
        obs.append({"fn": fn.name, "block": "loop", "kind": "spec", "target": "react_delimiter",
                    "msg": ("a value containing the delimiter is kept whole only under dont_delimit_trailing_values at or after the first trailing index" if whole
                            else "under dont_delimit_trailing_values a value at or after the first trailing index is never split"),
                    "pc": list(pc), "neg": f"(not {exempt})" if whole else exempt})
    if n_exempt == 0:
        obs.append({"fn": fn.name, "block": "shape", "kind": "spec", "target": "react_delimiter", "msg": "no path keeps a trailing value whole under dont_delimit_trailing_values", "pc": [], "neg": "true"})
    if n_split == 0 or n_push == 0:
        obs.append({"fn": fn.name, "block": "shape", "kind": "spec", "target": "react_delimiter", "msg": "react's delimiter block no longer has the reference shape (split / push paths not found)", "pc": [], "neg": "true"})
    for o in obs:
        o.setdefault("target", "react_delimiter")
    return ctx, obs, [_enc(fn, ex, len(paths))], con


SPECS["C02"].append(spec_react_delimiter)


# ------------------------------------------------------------------ C07: overrides are removed in both directions, all of them

def spec_remove_overrides(fns, consts):
    """Parser::remove_overrides (data flow through one pass of each of its loops): every id this
    argument overrides is removed; every matched argument that overrides this one (its `overrides`
    contains our id) is collected, and EVERY collected id is removed - the removal loop iterates the
    very vector the collection loop pushed into."""
    con = contracts.Contracts(fns, default_pure=True)
    ctx = symex.Ctx(consts, con)
    fn = _find(fns, "parser/parser.rs", "remove_overrides")
    ex = symex.Exec(ctx, fn, [("opq", "self"), ("opq", "arg"), ("opq", "matcher")])
    ex.run(havoc_unassigned=True, cut_loops=True)
    allc = [c for _, env in ex.cuts for c in env.get("#callargs", ())] + [c for ca in ex.return_callargs for c in ca]
    removes = {c[1][1] for c in allc if re.search(r"ArgMatcher::remove$", c[0]) and len(c[1]) == 2}
    pushes = [c for c in allc if re.search(r"^Vec::<&Id>::push$", c[0])]
    contains = [c for c in allc if re.search(r"::contains$", c[0])]
    checks = []
    fwd = any(re.search(r"^<std::slice::Iter<'_, Id> as Iterator>::next\(<&Vec<Id> as IntoIterator>::into_iter\(arg\.\d+\)\)@Some\.0$", r) for r in removes)
    checks.append(("every id listed in this argument's `overrides` is removed from the matcher", fwd))
    vec_keys = {p[1][0] for p in pushes}
    pushed_ok = bool(pushes) and all(re.search(r"^Arg::get_id\(command::Command::find\(self\.0,.*ArgMatcher::arg_ids\(matcher\)", p[1][1]) for p in pushes) and len(vec_keys) == 1
    checks.append(("each matched argument whose `overrides` contains this id is collected", pushed_ok and any("Arg::get_id(arg)" in c[1][-1] for c in contains)))
    vk = next(iter(vec_keys)) if len(vec_keys) == 1 else "?"
    back = any(r == f"<std::vec::IntoIter<&Id> as Iterator>::next(<Vec<&Id> as IntoIterator>::into_iter({vk}))@Some.0" for r in removes)
    checks.append(("every collected overrider is removed (the removal loop iterates the collected vector)", back))
    obs = []
    for msg, ok in checks:
        obs.append({"fn": fn.name, "block": "flow", "kind": "spec", "target": "remove_overrides", "msg": msg, "pc": [], "neg": "false" if ok else "true"})
    # the push must be guarded by `contains(..) == true`
    for pc, env in ex.cuts:
        ca = env.get("#callargs", ())
        if any(re.search(r"^Vec::<&Id>::push$", c[0]) for c in ca):
            cs = [ctx.keys[k] for k in ctx.keys if re.search(r"::contains\(.*Arg::get_id\(arg\)\)$", k)]
            obs.append({"fn": fn.name, "block": "loop", "kind": "spec", "target": "remove_overrides", "msg": "an argument is collected only if it declares an override of this one",
                        "pc": list(pc), "neg": f"(not {cs[0]})" if len(cs) == 1 else "true"})
    for o in obs:
        o.setdefault("target", "remove_overrides")
    return ctx, obs, [_enc(fn, ex, len(ex.cuts) + len(ex.returns))], con


SPECS["C07"].append(spec_remove_overrides)


# ------------------------------------------------------------------ C12: the possible-values block of the help cannot hit its `expect`

def spec_help_possible_values(fns, consts):
    """HelpTemplate::help takes `.max().expect("Only called with possible value")` over the VISIBLE
    possible values.  That is safe because (a) it is reached only when `use_long_pv(arg)` holds,
    (b) `use_long_pv` is `use_long && possible_values.iter().any(PossibleValue::should_show_help)`
    and (c) `should_show_help` is `!hide && help.is_some()` - so a visible value exists."""
    con = contracts.Contracts(fns, default_pure=True)
    ctx = symex.Ctx(consts, con)
    obs, enc = [], []

    def shape(msg, pc=()):
        obs.append({"fn": "help_template.rs", "block": "shape", "kind": "spec", "target": "help_possible_values", "msg": msg, "pc": list(pc), "neg": "true"})
    # (c)
    try:
        f = _find(fns, "builder/possible_value.rs", "should_show_help")
        e = symex.Exec(ctx, f, [("opq", "pv")]).run()
        hide = _key_sym(ctx, r"^pv\.\d+$", "Bool")
        has = _key_sym(ctx, r"^is_some\(pv\.\d+\)$", "Bool")
        for pc, val in e.returns:
            obs.append({"fn": f.name, "block": "ret", "kind": "spec", "target": "help_possible_values", "msg": "should_show_help <=> not hidden and has help", "pc": list(pc),
                        "neg": f"(not (= {val[1]} (and (not {hide}) {has})))"})
        enc.append(_enc(f, e, len(e.returns)))
    except Unsupported as ex:
        shape("PossibleValue::should_show_help no longer has the reference shape: " + str(ex)[:80])
    # (b)
    try:
        f = _find(fns, "output/help_template.rs", "use_long_pv")
        e = symex.Exec(ctx, f, [("opq", "self"), ("opq", "arg")]).run()
        ul = _key_sym(ctx, r"^self\.\d+$", "Bool")
        anyk = [k for k in ctx.keys if " as Iterator>::any::<" in k]
        ok_any = len(anyk) == 1 and "PossibleValue::should_show_help" in anyk[0] and "closure" not in anyk[0] and "Arg::get_possible_values(arg)" in anyk[0]
        if not ok_any:
            shape("use_long_pv does not test `possible_values.iter().any(PossibleValue::should_show_help)`")
        else:
            a = ctx.keys[anyk[0]]
            for pc, val in e.returns:
                obs.append({"fn": f.name, "block": "ret", "kind": "spec", "target": "help_possible_values", "msg": "use_long_pv <=> long help and some possible value is visible with help",
                            "pc": list(pc), "neg": f"(not (= {val[1]} (and {ul} {a})))"})
        enc.append(_enc(f, e, len(e.returns)))
    except Unsupported as ex:
        shape("use_long_pv no longer has the reference shape: " + str(ex)[:80])
    # (a)
    try:
        f = _find(fns, "output/help_template.rs", "help")
        e = symex.Exec(ctx, f, [("opq", "self"), ("opq", "arg_opt"), ("opq", "about"), ("opq", "spec_vals"), ("bool", ctx.sym("next_line_help", "Bool")), ("bv", ctx.sym("longest", "(_ BitVec 64)"), 64)])
        e.run(havoc_unassigned=True, cut_loops=True)
        paths = [(pc, env.get("#callargs", ())) for pc, env in e.cuts] + [(pc, ca) for (pc, _), ca in zip(e.returns, e.return_callargs)]
        n = 0
        for pc, ca in paths:
            for callee, argkeys, _ in ca:
                if re.search(r"^Option::<usize>::expect$", callee) and " as Iterator>::max(" in argkeys[0]:
                    n += 1
                    g = [ctx.keys[k] for k in ctx.keys if re.search(r"HelpTemplate::<'_, '_>::use_long_pv\(", k)]
                    guarded = len(g) == 1 and g[0] in pc
                    obs.append({"fn": f.name, "block": "call", "kind": "spec", "target": "help_possible_values", "msg": "the widest-visible-value `expect` is reached only under use_long_pv(arg)",
                                "pc": list(pc), "neg": "false" if guarded else "true"})
        if n == 0:
            shape("HelpTemplate::help: the `.max().expect(..)` over possible values was not found")
        enc.append(_enc(f, e, len(paths)))
    except Unsupported as ex:
        shape("HelpTemplate::help could not be encoded: " + str(ex)[:80])
    for o in obs:
        o.setdefault("target", "help_possible_values")
    return ctx, obs, enc, con


SPECS["C12"].append(spec_help_possible_values)


# ------------------------------------------------------------------ C02/C08: a pending hyphen-value argument wins over flag recognition

def spec_hyphen_value_guard(fns, consts):
    """Parser::parse_long_arg and Parser::parse_short_arg: when the argument currently being filled -
    an option (ParseState::Opt) OR a positional (ParseState::Pos) - allows hyphen values, a
    flag-looking token is returned as MaybeHyphenValue BEFORE any key lookup, in both classifiers."""
    con = contracts.Contracts(fns, default_pure=True)
    ctx = symex.Ctx(consts, con)
    obs, enc = [], []
    for fname in ("parse_long_arg", "parse_short_arg"):
        fn = _find(fns, "parser/parser.rs", fname)
        args = [("opq", "self")] + [("opq", n if n != "_" else f"p{i}") for i, n in enumerate(["matcher", "a2", "a3", "parse_state", "a5", "a6", "a7"][:len(fn.params) - 1])]
        # the parse_state parameter is the one typed &ParseState
        names = []
        for i, (loc, ty) in enumerate(fn.params):
            names.append("self" if i == 0 else ("parse_state" if "ParseState" in ty else f"{fname}_a{i}"))
        ex = symex.Exec(ctx, fn, [("opq", n) for n in names])
        ex.run(havoc_unassigned=True, cut_loops=True)
        found = {"Opt": 0, "Pos": 0}
        for (pc, val), calls in zip(ex.returns, ex.return_calls):
            for variant in ("Opt", "Pos"):
                hy = [ctx.keys[k] for k in ctx.keys if re.search(r"^Arg::is_allow_hyphen_values_set\(.*parse_state@" + variant + r"\.0\)\)$", k)]
                hit = [h for h in hy if h in pc]
                if not hit:
                    continue
                found[variant] += 1
                looked = any(re.search(r"MKeyMap::get(::<.*>)?$", c) for c in calls)
                is_maybe = val[0] == "enum" and val[1] == "Ok" and val[2] is not None and "MaybeHyphenValue" in symex.Exec.key(ex, val[2])
                obs.append({"fn": fn.name, "block": "ret", "kind": "spec", "target": "hyphen_value_guard",
                            "msg": f"{fname}: pending {variant} that allows hyphen values => MaybeHyphenValue before any key lookup", "pc": list(pc), "neg": "false" if (is_maybe and not looked) else "true"})
        for variant, n in found.items():
            if n == 0:
                obs.append({"fn": fn.name, "block": "shape", "kind": "spec", "target": "hyphen_value_guard", "msg": f"{fname}: no path gives a pending {variant} argument with allow_hyphen_values precedence", "pc": [], "neg": "true"})
        enc.append(_enc(fn, ex, len(ex.returns)))
    for o in obs:
        o.setdefault("target", "hyphen_value_guard")
    return ctx, obs, enc, con


SPECS["C02"].append(spec_hyphen_value_guard)
SPECS["C08"].append(spec_hyphen_value_guard)


# ------------------------------------------------------------------ C03/C10: one step of each loop of Validator::validate_required

def _block_calling(fn, rx):
    c = [b for b, blk in fn.blocks.items() if blk["stmts"] and re.search(rx, blk["stmts"][-1])]
    if len(c) != 1:
        raise Unsupported(f"{fn.name}: expected one block calling /{rx}/, found {len(c)}")
    return c[0]


def _arms(fn, header):
    """the (None-arm, Some-arm) blocks of `match iter.next()` whose call is the terminator of `header`"""
    m = re.search(r"return: (bb\d+)", fn.blocks[header]["stmts"][-1])
    sw = fn.blocks[m.group(1)]["stmts"][-1]
    m = re.match(r"^switchInt\(.*\) -> \[0: (bb\d+), 1: (bb\d+), otherwise: bb\d+\];?$", sw)
    if not m:
        raise Unsupported(f"{fn.name}: loop header {header} is not followed by a match on next()")
    return m.group(1), m.group(2)


def spec_validate_required_step(fns, consts):
    """Validator::validate_required, ONE pass of each of its loops from an arbitrary state
    (highest_index, required, is_exclusive_present free):
      required-list loop:   an arg is reported missing  <=>  !exclusive_present && !is_missing_required_ok;
                            a group <=> no member present;  highest_index' = missing && !last ? max(h, index or 0) : h
      r_ifs loop:           required' = required || check_explicit(other, Equals(val))       (any-of, monotone)
      conditional loop:     reported  <=>  !exclusive_present && (required || (all r_ifs_all && non-empty) ||
                            ((r_unless or r_unless_all non-empty) && fails_arg_required_unless)); same highest_index' rule
      display loop:         a preceding positional is added  <=>  its index < Some(highest_index)."""
    con = contracts.Contracts(fns, default_pure=True)
    ctx = symex.Ctx(consts, con)
    fn = _find(fns, "parser/validator.rs", "validate_required")
    L = {n: fn.debug.get(n) for n in ("highest_index", "is_exclusive_present", "required", "missing_required")}
    if not all(L.values()):
        raise Unsupported("validate_required: expected locals not found: " + repr(L))
    h_in = ("bv", ctx.sym("highest_index", "(_ BitVec 64)"), 64)
    e_in = ("bool", ctx.sym("is_exclusive_present", "Bool"))
    r_in = ("bool", ctx.sym("required", "Bool"))
    base = {L["highest_index"]: h_in, L["is_exclusive_present"]: e_in, L["required"]: r_in}
    args = [("opq", "self"), ("opq", "matcher"), ("opq", "conflicts")]
    obs, total = [], 0
    absent = [0]

    def res(ex, ca, rx, ty, which=-1):
        """solver term of the result of the (last) call matching rx on this path; a fresh unconstrained
        symbol when the path makes no such call (the clause then fails unless it does not depend on it)"""
        cs = [c for c in ca if re.search(rx, c[0])]
        if cs:
            return ctx.keys.get(cs[which][2]) or ex.typed_fresh(cs[which][2], ty)[1]
        absent[0] += 1
        return ex.typed_fresh(f"absent#{absent[0]}:{rx}", ty)[1]

    def add(msg, pc, neg):
        obs.append({"fn": fn.name, "block": "loop", "kind": "spec", "target": "validate_required_step", "msg": msg, "pc": list(pc), "neg": neg})

    def hmax(u):
        return f"(ite (bvuge {h_in[1]} {u}) {h_in[1]} {u})"

    def pushed_ids(ca):
        return [c for c in ca if c[0] == "Vec::<Id>::push"]

    # ---- required-list loop
    h1 = _block_calling(fn, r"graph::Child<Id>>.*as Iterator>::next\(")
    _, body1 = _arms(fn, h1)
    ex1 = symex.Exec(ctx, fn, args).run(start=body1, stop_at=h1, env=base, havoc_unassigned=True, cut_loops=True)
    for pc, env in ex1.stops:
        ca = env.get("#callargs", ())
        pushed = bool(pushed_ids(ca))
        is_group = any(re.search(r"Command::find_group$", c[0]) for c in ca)
        h_out = env[L["highest_index"]]
        if is_group:
            anyp = res(ex1, ca, r"as Iterator>::any::<", "bool")
            cond = f"(not {anyp})" if any(re.search(r"as Iterator>::any::<", c[0]) for c in ca) else "false"
            add("a required group is reported missing exactly when none of its members is present", pc, f"(not {cond})" if pushed else cond)
            add("a missing group leaves highest_index unchanged", pc, f"(not (= {h_out[1]} {h_in[1]}))")
        else:
            ok = res(ex1, ca, r"is_missing_required_ok$", "bool")
            cond = f"(and (not {e_in[1]}) (not {ok}))"
            # the paths on which the id named an argument: they test is_exclusive_present first
            if pushed or e_in[1] in pc or f"(not {e_in[1]})" in pc:
                add("a required argument is reported missing exactly when no exclusive argument is present and its absence is not excused", pc, f"(not {cond})" if pushed else cond)
            last = res(ex1, ca, r"Arg::is_last_set$", "bool")
            u = res(ex1, ca, r"Option::<usize>::unwrap_or$", "usize")
            exp = f"(ite {last} {h_in[1]} {hmax(u)})" if pushed else h_in[1]
            add("highest_index' = max(highest_index, index or 0) for a missing non-`last` argument, unchanged otherwise", pc, f"(not (= {h_out[1]} {exp}))")
    total += len(ex1.stops)
    if not any(pushed_ids(env.get("#callargs", ())) for _, env in ex1.stops):
        add("required-list loop: no path reports a missing argument", [], "true")

    # ---- r_ifs loop (any-of): required' = required || check_explicit
    h2 = _block_calling(fn, r"^_\d+ = <std::slice::Iter<'_, \(Id, builder::os_str::OsStr\)> as Iterator>::next\(")
    exit2, body2 = _arms(fn, h2)
    ex2 = symex.Exec(ctx, fn, args).run(start=body2, stop_at=h2, env=base, havoc_unassigned=True, cut_loops=True)
    for pc, env in ex2.stops:
        ca = env.get("#callargs", ())
        ce = res(ex2, ca, r"ArgMatcher::check_explicit$", "bool")
        r_out = env[L["required"]]
        add("required_if_eq_any: required' = required || (other is present with that value)", pc, f"(not (= {r_out[1]} (or {r_in[1]} {ce})))")
    total += len(ex2.stops)
    if not ex2.stops:
        add("r_ifs loop: no path returns to the loop header", [], "true")

    # ---- conditional loop, after the r_ifs loop has finished
    h3 = _block_calling(fn, r"^_\d+ = <Filter<std::slice::Iter<'_, Arg>, \{closure@[^}]*\}> as Iterator>::next\(")
    ex3 = symex.Exec(ctx, fn, args).run(start=exit2, stop_at=h3, env=base, havoc_unassigned=True, cut_loops=True)
    for pc, env in ex3.stops:
        ca = env.get("#callargs", ())
        pushed = bool(pushed_ids(ca))
        all_ = res(ex3, ca, r"as Iterator>::all::<", "bool")
        e_all = res(ex3, ca, r"^Vec::<\(Id, builder::os_str::OsStr\)>::is_empty$", "bool")
        e_unl = [ctx.keys.get(c[2]) or ex3.typed_fresh(c[2], "bool")[1] for c in ca if c[0] == "Vec::<Id>::is_empty"]
        fails = res(ex3, ca, r"fails_arg_required_unless$", "bool")
        has_all_call = any(re.search(r"as Iterator>::all::<", c[0]) for c in ca)
        unl_nonempty = "(or " + " ".join(f"(not {x})" for x in e_unl) + ")" if len(e_unl) > 1 else (f"(not {e_unl[0]})" if e_unl else "false")
        # short-circuit: r_unless non-empty skips the r_unless_all test, so the disjunction is decided by the calls made
        fails_called = any(re.search(r"fails_arg_required_unless$", c[0]) for c in ca)
        req = f"(or {r_in[1]} (and {all_} (not {e_all})) (and {unl_nonempty} {fails if fails_called else 'false'}))" if has_all_call else r_in[1]
        cond = f"(and (not {e_in[1]}) {req})"
        add("a conditionally required argument is reported exactly when no exclusive argument is present and one of its conditions holds", pc, f"(not {cond})" if pushed else cond)
        last = res(ex3, ca, r"Arg::is_last_set$", "bool")
        u = res(ex3, ca, r"Option::<usize>::unwrap_or$", "usize")
        h_out = env[L["highest_index"]]
        exp = f"(ite {last} {h_in[1]} {hmax(u)})" if pushed else h_in[1]
        add("highest_index' = max(highest_index, index or 0) for a missing non-`last` argument, unchanged otherwise", pc, f"(not (= {h_out[1]} {exp}))")
    total += len(ex3.stops)
    if not any(pushed_ids(env.get("#callargs", ())) for _, env in ex3.stops):
        add("conditional loop: no path reports a missing argument", [], "true")

    # ---- display loop: preceding positionals
    h4 = _block_calling(fn, r"^_\d+ = <Filter<Filter<std::slice::Iter<'_, Arg>, .*as Iterator>::next\(")
    _, body4 = _arms(fn, h4)
    ex4 = symex.Exec(ctx, fn, args).run(start=body4, stop_at=h4, env=base, havoc_unassigned=True, cut_loops=True)
    for pc, env in ex4.stops:
        ca = env.get("#callargs", ())
        pushed = bool(pushed_ids(ca))
        lts = [c for c in ca if c[0] == "<Option<usize> as PartialOrd>::lt"]
        ok_shape = len(lts) == 1 and re.match(r"^Arg::get_index\(", lts[0][1][0]) is not None and lts[0][1][1] == "Some(highest_index)"
        lt = res(ex4, ca, r"^<Option<usize> as PartialOrd>::lt$", "bool")
        add("an absent positional is added to the missing list exactly when its index < Some(highest_index)", pc,
            "true" if not ok_shape else (f"(not {lt})" if pushed else lt))
    total += len(ex4.stops)
    if not ex4.stops:
        add("display loop: no path returns to the loop header", [], "true")
    return ctx, obs, [_enc(fn, ex1, total)], con


SPECS["C03"].append(spec_validate_required_step)
SPECS["C10"].append(spec_validate_required_step)


# ------------------------------------------------------------------ C03: the direct conflicts of an argument

def spec_direct_conflicts(fns, consts):
    """validator.rs gather_arg_direct_conflicts (data flow through one pass of its loops): the result starts
    from the argument's own conflict list; for EVERY group the argument belongs to - multiple or not - the
    group's conflicts are added; for a non-multiple group every OTHER member is added (member != this
    argument, decided by the solver); finally the argument's overrides are added."""
    con = contracts.Contracts(fns, default_pure=True)
    ctx = symex.Ctx(consts, con)
    fn = _find(fns, "", "gather_arg_direct_conflicts")
    ex = symex.Exec(ctx, fn, [("opq", "cmd"), ("opq", "arg")])
    ex.run(havoc_unassigned=True, cut_loops=True)
    obs = []

    def add(msg, pc, neg, block="loop"):
        obs.append({"fn": fn.name, "block": block, "kind": "spec", "target": "direct_conflicts", "msg": msg, "pc": list(pc), "neg": neg})

    paths = [(pc, env.get("#callargs", ())) for pc, env in ex.cuts] + [(pc, ca) for (pc, _), ca in zip(ex.returns, ex.return_callargs)]
    n_group = n_member = 0
    for pc, ca in paths:
        ext = [c for c in ca if re.search(r"^<Vec<Id> as Extend<Id>>::extend::<", c[0])]
        if any(re.search(r"Command::find_group$", c[0]) for c in ca):
            n_group += 1
            gext = [c for c in ext if "Option::<&ArgGroup>::expect(" in c[1][1]]
            members = [c for c in ca if c[0] == "<&Vec<Id> as IntoIterator>::into_iter" and "Option::<&ArgGroup>::expect(" in c[1][0]]
            fld = lambda k: re.search(r"expect\([^#]*?\)\)?\.(\d+)", k)
            ok = len(gext) == 1 and (not members or (fld(gext[0][1][1]) and fld(members[0][1][0]) and fld(gext[0][1][1]).group(1) != fld(members[0][1][0]).group(1)))
            add("every group of the argument contributes its conflicts, whether or not it allows multiple members", pc, "false" if ok else "true")
        nes = [c for c in ca if c[0] == "<&Id as PartialEq>::ne"]
        if nes:
            n_member += 1
            pushed = any(c[0] == "Vec::<Id>::push" for c in ca)
            eqk = [k for k in ctx.keys if k.startswith("<&Id as PartialEq>::eq(")]
            eq = ctx.keys[eqk[0]] if len(eqk) == 1 else None
            if not eq:
                add("member test has an unexpected shape", pc, "true")
            else:
                shape_ok = "Arg::get_id(arg)" in nes[-1][1][1] or "Arg::get_id(arg)" in nes[-1][1][0]
                add("of a non-multiple group every OTHER member is a conflict (member != this argument)", pc,
                    "true" if not shape_ok else (eq if pushed else f"(not {eq})"))
    for (pc, _), ca in zip(ex.returns, ex.return_callargs):
        ext = [c for c in ca if re.search(r"^<Vec<Id> as Extend<Id>>::extend::<", c[0])]
        first = [c for c in ca if c[0] == "<Vec<Id> as Clone>::clone"]
        a_ext = [c for c in ext if re.search(r"\(arg\.\d+\)", c[1][1]) or re.search(r"deref\(arg\.\d+\)", c[1][1])]
        ok = len(first) == 1 and re.match(r"^arg\.\d+$", first[0][1][0]) is not None and len(a_ext) == 1 and first[0][1][0] not in a_ext[0][1][1].replace(first[0][1][0] + "0", "")
        add("the result starts from the argument's own conflicts and ends with its overrides", pc, "false" if ok else "true", block="ret")
    if n_group == 0 or n_member == 0 or not ex.returns:
        add("gather_arg_direct_conflicts no longer has the reference shape (group / member paths not found)", [], "true", block="shape")
    return ctx, obs, [_enc(fn, ex, len(paths))], con


SPECS["C03"].append(spec_direct_conflicts)


# ------------------------------------------------------------------ C12: a hidden positional never enters the usage line by itself

def spec_usage_hidden_positional(fns, consts):
    """Usage::write_args, one pass of the loop over the command's positionals from an arbitrary state:
    a positional with `hide` set is skipped before anything is rendered or stored for it (no
    `Arg::stylized`, no write into required_positionals), `last` or not."""
    con = contracts.Contracts(fns, default_pure=True)
    ctx = symex.Ctx(consts, con)
    fn = _find(fns, "output/usage.rs", "write_args")
    h = _block_calling(fn, r"^_\d+ = <Filter<std::slice::Iter<'_, Arg>, \{closure@clap_builder/src/builder/command.rs[^}]*\}> as Iterator>::next\(")
    _, body = _arms(fn, h)
    ex = symex.Exec(ctx, fn, [("opq", "self"), ("opq", "styled"), ("opq", "incls"), ("bool", ctx.sym("force_optional", "Bool"))])
    ex.run(start=body, stop_at=h, havoc_unassigned=True, cut_loops=True)
    obs = []
    n_hidden = n_shown = 0
    for pc, env in ex.stops:
        ca = env.get("#callargs", ())
        hides = [c for c in ca if c[0] == "Arg::is_hide_set"]
        if not hides:
            obs.append({"fn": fn.name, "block": "loop", "kind": "spec", "target": "usage_hidden_positional", "msg": "a pass over a positional that never consults `hide`", "pc": list(pc), "neg": "true"})
            continue
        hsym = ctx.keys[hides[0][2]]
        rendered = [c for c in ca if c[0] in ("Arg::stylized",) or re.search(r"IndexMut<usize>>::index_mut$|::resize$", c[0])]
        first_other = next((c[0] for c in ca if c[0] != "Arg::is_hide_set" and "Iterator>::next" not in c[0]), None)
        if hsym in pc:
            n_hidden += 1
            obs.append({"fn": fn.name, "block": "loop", "kind": "spec", "target": "usage_hidden_positional", "msg": "a hidden positional is skipped before anything is rendered or stored for it",
                        "pc": list(pc), "neg": "true" if (rendered or ca[0][0] != "Arg::is_hide_set") else "false"})
        else:
            n_shown += bool(rendered)
            # every path that renders something has `hide` decided false on it
            obs.append({"fn": fn.name, "block": "loop", "kind": "spec", "target": "usage_hidden_positional", "msg": "whatever is rendered for a positional is rendered only with `hide` unset", "pc": list(pc), "neg": hsym if rendered else "false"})
    if n_hidden == 0 or n_shown == 0:
        obs.append({"fn": fn.name, "block": "shape", "kind": "spec", "target": "usage_hidden_positional", "msg": "the positional loop of Usage::write_args no longer has the reference shape", "pc": [], "neg": "true"})
    return ctx, obs, [_enc(fn, ex, len(ex.stops))], con


SPECS["C12"].append(spec_usage_hidden_positional)


# ------------------------------------------------------------------ C18: candidate filtering order; subcommand level follows hidden aliases

def _closure_fn(fns, loc):
    c = [f for n, f in fns.items() if "{closure#" in n and loc in f.get().params[0][1]]
    if len(c) != 1:
        raise Unsupported(f"closure body for {loc} not found exactly once ({len(c)})")
    return c[0].get()


def _is_not_hidden(ctx, fns, loc):
    """does the closure at `loc` compute `!candidate.is_hide_set()` ?"""
    f = _closure_fn(fns, loc)
    ex = symex.Exec(ctx, f, [("opq", "closure_env"), ("opq", "cand")]).run()
    if len(ex.returns) != 1:
        return False
    pc, val = ex.returns[0]
    k = ctx.keys.get("CompletionCandidate::is_hide_set(cand)")
    return not pc and val[0] == "bool" and k is not None and val[1] == f"(not {k})"


def spec_complete_candidates(fns, consts):
    """clap_complete::engine::complete_arg (call order and data flow on every path to its Ok return):
    hidden candidates are dropped - `retain(!hidden)` exactly when `any(!hidden)` - BEFORE candidates are
    de-duplicated by id, so that a hidden spelling can never shadow the visible spelling of the same
    argument or subcommand.   clap_complete::engine::complete (one pass of its token loop): the
    subcommand level is advanced through Command::find_subcommand on the word's value (which follows
    hidden aliases as the real parser does)."""
    con = contracts.Contracts(fns, default_pure=True)
    ctx = symex.Ctx(consts, con)
    fn = fns["complete_arg"].get()
    ex = symex.Exec(ctx, fn, [("opq", "arg"), ("opq", "cmd"), ("opq", "current_dir"), ("bv", ctx.sym("pos_index", "(_ BitVec 64)"), 64), ("opq", "state")])
    ex.run(havoc_unassigned=True, cut_loops=True)
    obs = []

    def add(msg, pc, neg, block="ret", f=fn):
        obs.append({"fn": f.name, "block": block, "kind": "spec", "target": "complete_candidates", "msg": msg, "pc": list(pc), "neg": neg})

    n_ok = 0
    paths = [(pc, ca) for (pc, val), ca in zip(ex.returns, ex.return_callargs) if val[0] == "enum" and val[1] == "Ok"] + \
            [(pc, env.get("#callargs", ())) for pc, env in ex.cuts if any("sort_by_key" in c[0] or "HashSet" in c[0] for c in env.get("#callargs", ()))]
    for pc, ca in paths:
        names = [c[0] for c in ca]
        anys = [i for i, n in enumerate(names) if re.search(r"Iter<'_, CompletionCandidate> as Iterator>::any::<", n)]
        rets = [i for i, n in enumerate(names) if re.search(r"^Vec::<CompletionCandidate>::retain::<", n)]
        hs = [i for i, n in enumerate(names) if re.search(r"^HashSet::<.*>::new$", n)]
        if not hs:
            continue
        n_ok += 1
        loc = lambda n: re.search(r"\{closure@[^}]*\}", n).group(0)
        ok = len(anys) == 1 and anys[0] < hs[0] and _is_not_hidden(ctx, fns, loc(names[anys[0]]))
        hidden_rets = [i for i in rets if i < hs[0]]
        dedup = [i for i in rets if i > hs[0]]
        ok = ok and len(dedup) == 1
        if ok:
            asym = ctx.keys.get(ca[anys[0]][2])
            if asym in pc:
                ok = len(hidden_rets) == 1 and hidden_rets[0] > anys[0] and _is_not_hidden(ctx, fns, loc(names[hidden_rets[0]]))
            else:
                ok = not hidden_rets
        add("hidden candidates are filtered (retain(!hidden) iff any(!hidden)) before the de-duplication by id", pc, "false" if ok else "true")
    if n_ok == 0:
        add("complete_arg: no path reaches the candidate filters", [], "true", block="shape")

    # complete: one pass of the token loop
    cfn = fns["complete"].get()
    hdr = [b for b, blk in cfn.blocks.items() if any(re.search(r"= RawArgs::next\(", s) for s in blk["stmts"])]
    if len(hdr) != 1:
        raise Unsupported("clap_complete::engine::complete: loop header not found")
    ex2 = symex.Exec(ctx, cfn, [("opq", "cmd"), ("opq", "args"), ("bv", ctx.sym("arg_index", "(_ BitVec 64)"), 64), ("opq", "current_dir")])
    ex2.run(start=hdr[0], stop_at=hdr[0], havoc_unassigned=True, cut_loops=True)
    sub_paths = 0
    for pc, env in ex2.stops:
        ca = env.get("#callargs", ())
        for c in ca:
            if re.search(r"Command::find_subcommand(::<.*>)?$", c[0]) and "to_value" in c[1][1]:
                sub_paths += 1
    lookups = {c[0] for _, env in ex2.stops for c in env.get("#callargs", ()) if re.search(r"Command::(get_subcommands|get_name_and_visible_aliases|get_visible_aliases|get_all_aliases|get_name)$", c[0])}
    add("the subcommand level is advanced by Command::find_subcommand(value) and by nothing else", [], "false" if (sub_paths > 0 and not lookups) else "true", block="loop", f=cfn)
    return ctx, obs, [_enc(fn, ex, len(paths)), _enc(cfn, ex2, len(ex2.stops))], con


spec_complete_candidates.crate = "clap_complete"
SPECS["C18"].append(spec_complete_candidates)


# ------------------------------------------------------------------ C05: which positional a token goes to (the counter step of Parser::parse)

def spec_positional_counter(fns, consts):
    """Parser::parse, the block that chooses the positional for the current token, from an arbitrary
    state (pos_counter, trailing_values, positional_count, contains_last, low_index_mults, missing_pos,
    is_terminated all free).  Outside the look-ahead case ((low_index_mults || missing_pos) && !is_terminated):
        pos_counter' = trailing_values && (allow_missing_positional || contains_last) ? positional_count : pos_counter
    i.e. after `--` the values go to the highest-index (`last`) positional whether or not the current
    positional was terminated; inside it the counter stays or advances by one."""
    con = contracts.Contracts(fns, default_pure=True)
    ctx = symex.Ctx(consts, con)
    fn = _find(fns, "parser/parser.rs", "parse")
    names = ("pos_counter", "trailing_values", "positional_count", "contains_last", "low_index_mults", "missing_pos", "is_terminated")
    L = {n: fn.debug.get(n) for n in names}
    if not all(L.values()):
        raise Unsupported("Parser::parse: locals not found: " + repr(L))
    start = [b for b, blk in fn.blocks.items() if len(blk["stmts"]) == 2 and re.match(rf"^(_\d+) = copy {L['low_index_mults']};?$", blk["stmts"][0]) and blk["stmts"][1].startswith("switchInt(move ")]
    stop = [b for b, blk in fn.blocks.items() if re.match(rf"^{L['pos_counter']} = move (_\d+);?$", blk["stmts"][0]) and any("Command::get_keymap(" in s for s in blk["stmts"])]
    if len(start) != 1 or len(stop) != 1:
        raise Unsupported(f"Parser::parse: positional-counter block not found (start {start}, join {stop})")
    new_local = re.match(rf"^{L['pos_counter']} = move (_\d+);?$", fn.blocks[stop[0]]["stmts"][0]).group(1)
    S = {n: (("bv", ctx.sym(n, "(_ BitVec 64)"), 64) if n in ("pos_counter", "positional_count") else ("bool", ctx.sym(n, "Bool"))) for n in names}
    ex = symex.Exec(ctx, fn, [("opq", "self"), ("opq", "matcher"), ("opq", "raw_args"), ("opq", "cursor")])
    ex.run(start=start[0], stop_at=stop[0], env={L[n]: S[n] for n in names}, havoc_unassigned=True, cut_loops=True)
    allow = ex.typed_fresh("command::Command::is_allow_missing_positional_set(self.0)", "bool")[1]
    p, pcnt = S["pos_counter"][1], S["positional_count"][1]
    look = f"(and (or {S['low_index_mults'][1]} {S['missing_pos'][1]}) (not {S['is_terminated'][1]}))"
    ref = f"(ite (and {S['trailing_values'][1]} (or {allow} {S['contains_last'][1]})) {pcnt} {p})"
    obs = []
    for pc, env in ex.stops:
        new = env.get(new_local)
        if new is None or new[0] != "bv":
            obs.append({"fn": fn.name, "block": "counter", "kind": "spec", "target": "positional_counter", "msg": "the chosen positional index is not an integer value on this path", "pc": list(pc), "neg": "true"})
            continue
        obs.append({"fn": fn.name, "block": "counter", "kind": "spec", "target": "positional_counter",
                    "msg": "outside the look-ahead case the token goes to the `last` positional after `--` (when one exists), else to the current one",
                    "pc": list(pc), "neg": f"(and (not {look}) (not (= {new[1]} {ref})))"})
        obs.append({"fn": fn.name, "block": "counter", "kind": "spec", "target": "positional_counter",
                    "msg": "in the look-ahead case the counter stays or advances by exactly one",
                    "pc": list(pc), "neg": f"(and {look} (not (= {new[1]} {p})) (not (= {new[1]} (bvadd {p} (_ bv1 64)))))"})
    if len(ex.stops) < 3:
        obs.append({"fn": fn.name, "block": "shape", "kind": "spec", "target": "positional_counter", "msg": "the positional-counter block no longer has the reference shape", "pc": [], "neg": "true"})
    return ctx, obs, [{"function": fn.name + f" [positional-counter block {start[0]}..{stop[0]}]", "mir_line": fn.line, "mir_blocks": len(fn.blocks), "obligations": len(obs), "return_paths": len(ex.stops)}], con


SPECS["C05"].append(spec_positional_counter)


# ------------------------------------------------------------------ C02: one value, one index (Parser::push_arg_values)

def spec_push_arg_values(fns, consts):
    """Parser::push_arg_values, one pass of its loop (call order and data flow on every path back to the
    loop header): the running index is advanced by exactly one (set(get() + 1)) BEFORE the value is
    stored; the value stored for the argument is the result of parsing THIS raw value and is stored
    together with THIS raw value; the index recorded for the argument is the running index read AFTER
    the increment; a parse error returns before anything is stored."""
    con = contracts.Contracts(fns, default_pure=True)
    ctx = symex.Ctx(consts, con)
    fn = _find(fns, "parser/parser.rs", "push_arg_values")
    ex = symex.Exec(ctx, fn, [("opq", "self"), ("opq", "arg"), ("opq", "raw_vals"), ("opq", "source"), ("opq", "matcher")])
    ex.run(havoc_unassigned=True, cut_loops=True)
    obs = []

    def add(msg, pc, ok, block="loop"):
        obs.append({"fn": fn.name, "block": block, "kind": "spec", "target": "push_arg_values", "msg": msg, "pc": list(pc), "neg": "false" if ok else "true"})

    n = 0
    for pc, env in ex.cuts:
        ca = env.get("#callargs", ())
        names = [c[0] for c in ca]
        if "ArgMatcher::add_val_to" not in names and "ArgMatcher::add_index_to" not in names:
            continue
        n += 1
        idx = {k: [i for i, x in enumerate(names) if x == k] for k in ("Cell::<usize>::get", "Cell::<usize>::set", "value_parser::ValueParser::parse_ref", "ArgMatcher::add_val_to", "ArgMatcher::add_index_to")}
        once = all(len(idx[k]) == 1 for k in ("Cell::<usize>::set", "value_parser::ValueParser::parse_ref", "ArgMatcher::add_val_to", "ArgMatcher::add_index_to")) and len(idx["Cell::<usize>::get"]) == 2
        if not once:
            add("one pass stores exactly one value and one index and advances the running index once", pc, False)
            continue
        g1, g2 = idx["Cell::<usize>::get"]
        st, pr, av, ai = (idx[k][0] for k in ("Cell::<usize>::set", "value_parser::ValueParser::parse_ref", "ArgMatcher::add_val_to", "ArgMatcher::add_index_to"))
        setc, prc, avc, aic = ca[st], ca[pr], ca[av], ca[ai]
        item = [c for c in ca if re.search(r"IntoIter<OsString> as Iterator>::next$", c[0])]
        raw = item[-1][2] + "@Some.0" if item else "?"
        inc = ctx.keys.get(ca[g1][2])
        add("the running index is advanced by exactly one before the value is stored", pc,
            g1 < st < av and st < g2 < ai and inc is not None and re.sub(r"\s+", " ", setc[1][1]) in (f"(bvadd {inc} (_ bv1 64))",) and "self." in setc[1][0] and setc[1][0] == ca[g1][1][0] == ca[g2][1][0])
        add("the stored value is the parse of this raw value, stored together with this raw value, for this argument", pc,
            pr < av and raw in prc[1][3] and avc[1][1] == "Arg::get_id(arg)" and prc[2] in avc[1][2] and avc[1][3] == raw)
        add("the index recorded for the argument is the running index read after the increment", pc,
            aic[1][1] == "Arg::get_id(arg)" and aic[1][2] == ca[g2][2] and av < ai)
    for (pc, val), ca in zip(ex.returns, ex.return_callargs):
        names = [c[0] for c in ca]
        if val[0] == "enum" and val[1] == "Err":
            add("a value that fails to parse is reported before anything is stored for it", pc, "ArgMatcher::add_val_to" not in names and "ArgMatcher::add_index_to" not in names, block="ret")
    if n == 0:
        add("push_arg_values: no path stores a value", [], False, block="shape")
    return ctx, obs, [_enc(fn, ex, n)], con


SPECS["C02"].append(spec_push_arg_values)


# ------------------------------------------------------------------ C02: the index of the flag itself (Parser::react)

def spec_react_index(fns, consts):
    """Parser::react, every path that stores values (loops cut): for Set and Append the running index
    is advanced once for the flag itself - set(get() + 1), before the values are pushed - exactly when
    the occurrence comes from the command line through a short or long flag (not a positional, not
    env/default); SetTrue / SetFalse / Count never advance it in react (their one value carries the
    index); values are always pushed after start_custom_arg(matcher, arg, source) for the same argument
    and source."""
    con = contracts.Contracts(fns, default_pure=True)
    ctx = symex.Ctx(consts, con)
    fn = _find(fns, "parser/parser.rs", "react")
    ex = symex.Exec(ctx, fn, [("opq", "self"), ("opq", "ident"), ("opq", "source"), ("opq", "arg"), ("opq", "raw_vals"), ("opq", "trailing_idx"), ("opq", "matcher")])
    ex.run(havoc_unassigned=True, cut_loops=True)
    if "discr(Arg::get_action(arg))" not in ctx.keys:
        raise Unsupported("react: the action is not matched on")
    d = ctx.keys["discr(Arg::get_action(arg))"]
    di = ex.typed_fresh("discr(ident)", "isize")[1]
    dk = ex.typed_fresh("discr(ident@Some.0)", "isize")[1]
    names = {0: "Set", 1: "Append", 2: "SetTrue", 3: "SetFalse", 4: "Count"}
    obs, seen = [], {n: 0 for n in names.values()}

    def add(msg, pc, neg):
        obs.append({"fn": fn.name, "block": "ret", "kind": "spec", "target": "react_index", "msg": msg, "pc": list(pc), "neg": neg})

    for (pc, val), ca in zip(ex.returns, ex.return_callargs):
        act = None
        for c in pc:
            m = re.match(r"^\(= " + re.escape(d) + r" \(_ bv(\d+) 64\)\)$", c)
            if m:
                act = int(m.group(1))
        cn = [c[0] for c in ca]
        push = [i for i, n in enumerate(cn) if n.endswith("::push_arg_values")]
        if act not in names or not push:
            continue
        tag = names[act]
        seen[tag] += 1
        sets = [i for i, n in enumerate(cn) if n == "Cell::<usize>::set"]
        gets = [i for i, n in enumerate(cn) if n == "Cell::<usize>::get"]
        starts = [i for i, n in enumerate(cn) if n.endswith("::start_custom_arg")]
        ok = len(push) == 1 and len(starts) == 1 and starts[0] < push[0] and ca[starts[0]][1] == ("self", "matcher", "arg", "source") \
            and ca[push[0]][1][0] == "self" and ca[push[0]][1][1] == "arg" and ca[push[0]][1][3:] == ("source", "matcher")
        add(f"{tag}: values are pushed once, after start_custom_arg for the same argument and source", pc, "false" if ok else "true")
        if act in (0, 1):
            eqs = [i for i, n in enumerate(cn) if n == "<ValueSource as PartialEq>::eq" and i < starts[0]] if starts else []
            if not eqs:
                add(f"{tag}: the source is not consulted before the values are pushed", pc, "true")
                continue
            eqsym = ctx.keys.get(ca[eqs[-1]][2])
            is_cl = "CommandLine" in ca[eqs[-1]][1][1] or "promoted" in ca[eqs[-1]][1][1]
            cond = f"(and {eqsym} (= {di} (_ bv1 64)) (or (= {dk} (_ bv0 64)) (= {dk} (_ bv1 64))))"
            if sets:
                inc = ctx.keys.get(ca[gets[0]][2]) if gets else None
                shape = len(sets) == 1 and gets and gets[0] < sets[0] < push[0] and inc and ca[sets[0]][1][1] == f"(bvadd {inc} (_ bv1 64))" and ca[sets[0]][1][0] == ca[gets[0]][1][0] and is_cl
                add(f"{tag}: the flag's own index is taken (exactly +1, before its values) only for a short/long occurrence on the command line", pc, f"(not {cond})" if shape else "true")
            else:
                add(f"{tag}: a short/long occurrence on the command line always takes an index for the flag itself", pc, cond if is_cl else "true")
        else:
            add(f"{tag}: react does not advance the running index itself (the implied value carries it)", pc, "true" if sets else "false")
    if not all(seen.values()):
        add("react: an action arm stores no values on any path (reference shape lost): " + ", ".join(k for k, v in seen.items() if not v), [], "true")
    return ctx, obs, [_enc(fn, ex, len(obs))], con


SPECS["C02"].append(spec_react_index)


# ------------------------------------------------------------------ C06: env and defaults only fill in what the command line left absent

def spec_source_precedence(fns, consts):
    """Parser::add_env (one pass of its loop) and Parser::add_default_value (every path): a value from
    the environment or from a (conditional) default is handed to react ONLY on paths where
    `matcher.contains(<this argument's id>)` was consulted and is false - whatever is already matched
    (command line before env, env before defaults) is never overridden or appended to; at most one
    default is applied per argument (the first conditional default whose condition holds wins, the
    plain default is used only when none did)."""
    con = contracts.Contracts(fns, default_pure=True)
    ctx = symex.Ctx(consts, con)
    obs, enc = [], []
    for fname in ("add_env", "add_default_value"):
        fn = _find(fns, "parser/parser.rs", fname)
        args = [("opq", "self"), ("opq", "arg"), ("opq", "matcher")] if fname == "add_default_value" else [("opq", "self"), ("opq", "matcher")]
        ex = symex.Exec(ctx, fn, args)
        ex.run(havoc_unassigned=True, cut_loops=True)
        paths = [(pc, ca) for (pc, _), ca in zip(ex.returns, ex.return_callargs)] + [(pc, env.get("#callargs", ())) for pc, env in ex.cuts]
        n_react = 0
        for pc, ca in paths:
            cn = [c[0] for c in ca]
            reacts = [i for i, n in enumerate(cn) if n.endswith("::react")]
            if not reacts:
                continue
            n_react += 1
            cont = [i for i, n in enumerate(cn) if n == "ArgMatcher::contains" and i < reacts[0]]
            if fname == "add_env":
                item = [c for c in ca if re.search(r"Iter<'_, Arg> as Iterator>::next$", c[0])]
                own = bool(cont) and bool(item) and ca[cont[-1]][1][0] == "matcher" and ca[cont[-1]][1][1].startswith(item[-1][2] + "@Some.0") and ca[reacts[0]][1][3] == item[-1][2] + "@Some.0"
            else:
                own = bool(cont) and ca[cont[-1]][1] == ("matcher", "Arg::get_id(arg)") and ca[reacts[0]][1][3] == "arg"
            sym = ctx.keys.get(ca[cont[-1]][2]) if cont else None
            obs.append({"fn": fn.name, "block": "call", "kind": "spec", "target": "source_precedence",
                        "msg": f"{fname}: a value is supplied only for an argument the matcher does not contain yet", "pc": list(pc), "neg": sym if (own and sym) else "true"})
            obs.append({"fn": fn.name, "block": "call", "kind": "spec", "target": "source_precedence",
                        "msg": f"{fname}: at most one value set is supplied per argument on a path", "pc": list(pc), "neg": "false" if len(reacts) == 1 else "true"})
        if n_react == 0:
            obs.append({"fn": fn.name, "block": "shape", "kind": "spec", "target": "source_precedence", "msg": f"{fname}: no path supplies a value", "pc": [], "neg": "true"})
        enc.append(_enc(fn, ex, len(paths)))
    return ctx, obs, enc, con


SPECS["C06"].append(spec_source_precedence)


# ------------------------------------------------------------------ C01/C02: resuming a short cluster after a flag subcommand

def spec_short_cluster_resume(fns, consts):
    """Parser::parse_short_arg / Parser::parse: when a short flag subcommand is found before the end of
    its cluster (`-SaQz`), the number of flags the child parser must skip when it revisits the cluster
    is a CHARACTER count.  It must be derived from the cluster itself: on every path returning
    FlagSubCommand with flags left, `flag_subcmd_skip` is written as (flags in the whole cluster) -
    (flags left), both counted on the cluster iterator, the first before anything is consumed - the
    solver shows the subtraction cannot underflow given that consuming never increases the count - and
    Parser::parse does not overwrite it from the value index (an option may take 0 or 2+ indices)."""
    con = contracts.Contracts(fns, default_pure=True)
    ctx = symex.Ctx(consts, con)
    fn = _find(fns, "parser/parser.rs", "parse_short_arg")
    names = ["self", "matcher", "short_arg", "parse_state", "pos_counter", "valid_arg_found"]
    args = [("opq", names[i] if i < len(names) else f"a{i}") for i in range(len(fn.params))]
    ex = symex.Exec(ctx, fn, args)
    ex.run(havoc_unassigned=True, cut_loops=True)
    obs = []

    def add(msg, pc, neg, f=fn, block="ret"):
        obs.append({"fn": f.name, "block": block, "kind": "spec", "target": "short_cluster_resume", "msg": msg, "pc": list(pc), "neg": neg})

    # overflow asserts of this function that involve the counts are part of the claim
    cnt_syms = [ctx.keys[k] for k in ctx.keys if re.search(r"as Iterator>::count\(", k)]
    if len(cnt_syms) >= 2:
        # contract: counting the flags left never yields more than counting the whole cluster did
        for c in cnt_syms[1:]:
            ctx.assume("consuming flags never increases the cluster iterator's count", f"(bvule {c} {cnt_syms[0]})")
    n_resume = 0
    paths = list(zip(ex.returns, ex.return_callargs, ex.return_envs)) + [((pc, None), env.get("#callargs", ()), env) for pc, env in ex.cuts]
    for (pc, val), ca, env in paths:
        cn = [c[0] for c in ca]
        if not any(n.endswith("find_short_subcmd") for n in cn):
            continue
        emp = [c for c in ca if c[0].endswith("ShortFlags::<'_>::is_empty")]
        is_sub = val is not None and val[0] == "enum" and val[1] == "Ok" and val[2] is not None and "FlagSubCommand" in ex.key(val[2])
        if not is_sub or not emp:
            continue
        esym = ctx.keys.get(emp[-1][2])
        if esym in pc:
            continue        # nothing left in the cluster: no resume
        n_resume += 1
        stores = {k: v for k, v in env.items() if re.match(r"^place:\(\(\*_1\)\.\d+: usize\)$", k)}
        counts = [i for i, n in enumerate(cn) if re.search(r"as Iterator>::count$", n)]
        adv = [i for i, n in enumerate(cn) if n.endswith("::advance_by")]
        ok = False
        if len(stores) == 1 and len(counts) >= 2 and adv:
            v = list(stores.values())[0]
            c0, c1 = ctx.keys.get(ca[counts[0]][2]), ctx.keys.get(ca[counts[-1]][2])
            nxt = [i for i, n in enumerate(cn) if n.endswith("::next_flag")]
            ok = v[0] == "bv" and v[1] == f"(bvsub {c0} {c1})" and counts[0] < adv[0] and (not nxt or counts[-1] > nxt[-1]) \
                and "short_arg" in ca[counts[0]][1][0] and "short_arg" in ca[counts[-1]][1][0]
        add("a flag subcommand found before the end of its cluster records (flags in the cluster) - (flags left) as the number of flags to skip on revisit", pc, "false" if ok else "true")
    # the recorded count is used once: it is reset to 0 before the cluster is advanced, and stays 0 unless a resume is recorded
    n_adv = 0
    for (pc, val), ca, env in paths:
        cn = [c[0] for c in ca]
        adv = [i for i, x in enumerate(cn) if x.endswith("::advance_by")]
        if not adv:
            continue
        n_adv += 1
        stores = {k: v for k, v in env.items() if re.match(r"^place:\(\(\*_1\)\.\d+: usize\)$", k)}
        emp = [c for c in ca if c[0].endswith("ShortFlags::<'_>::is_empty")]
        resume = val is not None and val[0] == "enum" and val[1] == "Ok" and val[2] is not None and "FlagSubCommand" in ex.key(val[2]) and emp and ctx.keys.get(emp[-1][2]) not in pc
        if resume:
            continue
        ok = len(stores) == 1 and list(stores.values())[0] == ("bv", "(_ bv0 64)", 64)
        add("the recorded skip count is used once: reset to 0 before the cluster is advanced by it", pc, "false" if ok else "true")
    # ... and it is consumed on EVERY path: an early return (the token is a hyphen value) must not leave a recorded
    # count behind for the next cluster (kept as a separate target: a recorded known finding)
    early = 0
    for (pc, val), ca, env in paths:
        cn = [c[0] for c in ca]
        if any(x.endswith("::advance_by") for x in cn) or val is None:
            continue
        stores = {k: v for k, v in env.items() if re.match(r"^place:\(\(\*_1\)\.\d+: usize\)$", k)}
        ok = len(stores) == 1 and list(stores.values())[0] == ("bv", "(_ bv0 64)", 64)
        early += 1
        obs.append({"fn": fn.name, "block": "ret", "kind": "spec", "target": "short_cluster_skip_consumed",
                    "msg": "a return before the cluster is advanced (hyphen-value / negative-number early exits) also consumes the recorded skip count", "pc": list(pc), "neg": "false" if ok else "true"})
    if n_resume == 0 or n_adv == 0:
        add("parse_short_arg: no path finds a flag subcommand with flags left", [], "true", block="shape")
    for o in ex.obligations:
        if o["kind"] == "assert" and "subtract" in o["msg"]:
            o2 = dict(o)
            o2.update({"kind": "spec", "target": "short_cluster_resume", "msg": "the skip count (cluster - left) cannot underflow: " + o["msg"][:60]})
            obs.append(o2)
    # Parser::parse must not recompute the skip count from the value index
    pfn = _find(fns, "parser/parser.rs", "parse")
    clos = [f.get() for n, f in fns.items() if n.startswith(pfn.name + "::{closure")]
    bad = []
    for f in [pfn] + clos:
        text = getattr(f, "text", "") or ""
        if f is not pfn and re.search(r"debug self__flag_subcmd_skip => \(\*\(_1\.\d+: &mut usize\)\)", text):
            bad.append((f.name.split("::")[-1], "captures flag_subcmd_skip mutably"))
        for b, blk in f.blocks.items():
            for st in blk["stmts"]:
                m = re.match(r"^\(\(\*_1\)\.\d+: usize\) = (.*?);?$", st.strip())
                if f is pfn and m and not re.match(r"^const 0_usize$", m.group(1)):
                    bad.append((f.name.split("::")[-1], st.strip()[:80]))
    add("Parser::parse (and its closures) never writes the skip count itself", [], "true" if bad else "false", f=pfn, block="shape")
    return ctx, obs, [_enc(fn, ex, n_resume), {"function": pfn.name + " [field stores]", "mir_line": pfn.line, "mir_blocks": len(pfn.blocks), "obligations": 1, "return_paths": 0}], con


SPECS["C01"].append(spec_short_cluster_resume)
SPECS["C02"].append(spec_short_cluster_resume)


# ------------------------------------------------------------------ C03: the predicate every conditional rule is filtered by

def spec_check_explicit(fns, consts):
    """MatchedArg::check_explicit: false for an entry whose source is not explicit; otherwise IsPresent
    is true, and Equals(v) is `raw_vals_flatten().any(..)` - true iff ANY raw value matches - with the
    match being eq_ignore_case(lossy(value), lossy(v)) under ignore_case and OsStr equality otherwise
    (the closure is executed from its own MIR and compared with that reference by the solver)."""
    con = contracts.Contracts(fns, default_pure=True)
    ctx = symex.Ctx(consts, con)
    fn = _find(fns, "matches/matched_arg.rs", "check_explicit")
    ex = symex.Exec(ctx, fn, [("opq", "self"), ("opq", "predicate")]).run()
    obs, enc = [], []

    def add(msg, pc, neg, f=fn):
        obs.append({"fn": f.name, "block": "ret", "kind": "spec", "target": "check_explicit", "msg": msg, "pc": list(pc), "neg": neg})

    implicit = [ctx.keys[k] for k in ctx.keys if re.match(r"^Option::<bool>::unwrap_or\(Option::<ValueSource>::map::<bool, .*>\(self\.0,.*\),false\)$", k.replace(" ", "")) or re.match(r"^Option::<bool>::unwrap_or\(Option::<ValueSource>::map::<bool,", k)]
    d = ctx.keys.get("discr(predicate)")
    n_eq = 0
    for (pc, val), ca in zip(ex.returns, ex.return_callargs):
        cn = [c[0] for c in ca]
        if len(implicit) == 1 and implicit[0] in pc:
            add("an entry that is not explicitly sourced never satisfies a predicate", pc, "false" if val == ("bool", "false") else "true")
            continue
        if d and f"(= {d} (_ bv0 64))" in pc:
            add("IsPresent holds for every explicitly sourced entry", pc, "false" if val == ("bool", "true") else "true")
        elif d and f"(= {d} (_ bv1 64))" in pc:
            n_eq += 1
            anys = [c for c in ca if re.search(r"^<Flatten<.*> as Iterator>::any::<\{closure@", c[0])]
            ok = len(anys) == 1 and "MatchedArg::raw_vals_flatten(self)" in anys[0][1][0] and val[0] == "bool" and val[1] == ctx.keys.get(anys[0][2]) \
                and not any(re.search(r"as Iterator>::(all|find|position|last|nth|skip|take|rev)\b", n) for n in cn)
            add("Equals(v) is decided by ANY raw value of the entry matching v", pc, "false" if ok else "true")
            if anys:
                loc = re.search(r"\{closure@[^}]*\}", anys[0][0]).group(0)
                try:
                    cf = _closure_fn(fns, loc)
                    cex = symex.Exec(ctx, cf, [("opq", "cl"), ("opq", "value")]).run()
                    ic = [ctx.keys[k] for k in ctx.keys if re.match(r"^cl\.0\.\d+$", k) and ctx.decls[ctx.keys[k]] == "Bool"]
                    eqi = [ctx.keys[k] for k in ctx.keys if k.startswith("eq_ignore_case(") and "to_string_lossy(<OsString as Deref>::deref(value))" in k and "cl.1" in k]
                    eqs = [ctx.keys[k] for k in ctx.keys if k.startswith("<&std::ffi::OsStr as PartialEq>::eq(OsString::as_os_str(value)") and "cl.1" in k]
                    if len(ic) == 1 and len(eqi) == 1 and len(eqs) == 1:
                        for cpc, cval in cex.returns:
                            add("a raw value matches v: eq_ignore_case(lossy, lossy) under ignore_case, OsStr equality otherwise", cpc, f"(not (= {cval[1]} (ite {ic[0]} {eqi[0]} {eqs[0]})))", f=cf)
                    else:
                        add("the matching closure no longer has the reference shape", [], "true", f=cf)
                    enc.append(_enc(cf, cex, len(cex.returns)))
                except Unsupported as e:
                    add("the matching closure cannot be encoded: " + str(e)[:60], [], "true")
    if n_eq == 0 or len(implicit) != 1:
        add("check_explicit no longer has the reference shape", [], "true")
    enc.append(_enc(fn, ex, len(ex.returns)))
    return ctx, obs, enc, con


SPECS["C03"].append(spec_check_explicit)
SPECS["C06"].append(spec_check_explicit)


# ------------------------------------------------------------------ C06/C07: only a command-line occurrence removes what it overrides

def spec_start_custom_arg(fns, consts):
    """Parser::start_custom_arg: earlier occurrences of overridden arguments are removed (remove_overrides)
    exactly when the new occurrence comes from the COMMAND LINE - never for a value supplied by the
    environment or a default, which must not displace what the user typed; the occurrence is then opened
    in the matcher for the same argument and source, and group membership is recorded exactly for
    explicit sources."""
    con = contracts.Contracts(fns, default_pure=True)
    ctx = symex.Ctx(consts, con)
    fn = _find(fns, "parser/parser.rs", "start_custom_arg")
    ex = symex.Exec(ctx, fn, [("opq", "self"), ("opq", "matcher"), ("opq", "arg"), ("opq", "source")])
    ex.run(havoc_unassigned=True, cut_loops=True)
    obs = []

    def add(msg, pc, neg):
        obs.append({"fn": fn.name, "block": "ret", "kind": "spec", "target": "start_custom_arg", "msg": msg, "pc": list(pc), "neg": neg})

    def promoted_is_command_line(key):
        m = re.match(r"^const:(.*::promoted\[\d+\])$", key)
        if not m:
            return False
        tail = m.group(1).split("::")[-2:]
        cands = [v for k, v in consts.items() if k.startswith("promoted:") and k.endswith("::".join(tail)) and "start_custom_arg" in k and "parser/parser.rs" in k]
        return len(cands) == 1 and any(re.search(r"= ValueSource::CommandLine;", l) for l in cands[0][2]) and sum("= ValueSource::" in l for l in cands[0][2]) == 1

    paths = [(pc, ca) for (pc, _), ca in zip(ex.returns, ex.return_callargs)] + [(pc, env.get("#callargs", ())) for pc, env in ex.cuts]
    n = 0
    for pc, ca in paths:
        cn = [c[0] for c in ca]
        eqs = [c for c in ca if c[0] == "<ValueSource as PartialEq>::eq"]
        rm = [i for i, x in enumerate(cn) if x.endswith("::remove_overrides")]
        st = [i for i, x in enumerate(cn) if x == "ArgMatcher::start_custom_arg"]
        n += 1
        if len(eqs) != 1 or eqs[0][1][0] != "source" or not promoted_is_command_line(eqs[0][1][1]):
            add("the decision to remove overridden arguments compares the source with ValueSource::CommandLine", pc, "true")
            continue
        sym = ctx.keys.get(eqs[0][2])
        ok_shape = (not rm or (len(rm) == 1 and ca[rm[0]][1] == ("self", "arg", "matcher") and st and rm[0] < st[0])) and len(st) == 1 and ca[st[0]][1] == ("matcher", "arg", "source")
        add("overridden arguments are removed exactly for a command-line occurrence, before the occurrence is opened for the same argument and source", pc,
            "true" if not ok_shape else (f"(not {sym})" if rm else sym))
        exp = [c for c in ca if c[0] == "ValueSource::is_explicit"]
        grp = any(x == "ArgMatcher::start_custom_group" or x.endswith("groups_for_arg") for x in cn)
        if exp:
            es = ctx.keys.get(exp[0][2])
            add("group membership is recorded exactly for explicit sources", pc, f"(not {es})" if grp else es)
    if n == 0:
        add("start_custom_arg: no path", [], "true")
    return ctx, obs, [_enc(fn, ex, n)], con


SPECS["C06"].append(spec_start_custom_arg)
SPECS["C07"].append(spec_start_custom_arg)


# ------------------------------------------------------------------ C11: the two places that name subcommands agree

def spec_bin_name_twins(fns, consts):
    """Command::_build_subcommand (run by every parse that enters a subcommand) and
    Command::_build_bin_names_internal (run by build()/help rendering) both compute a subcommand's
    usage_name / bin_name; a definition that was used for a parse renders like a fresh one only if they
    agree.  Decided: (1) in BOTH functions the required-arguments infix is computed
    (get_required_usage_from called) exactly when neither subcommand_negates_reqs nor
    args_conflicts_with_subcommands is set (solver, per path); (2) both take the parent prefix from
    `self.bin_name` through the same `as_deref().unwrap_or(fallback)` (name, or "" under multicall)."""
    con = contracts.Contracts(fns, default_pure=True)
    ctx = symex.Ctx(consts, con)
    obs, enc = [], []
    prefix = {}
    for fname in ("_build_subcommand", "_build_bin_names_internal"):
        fn = _find(fns, "builder/command.rs", fname)
        args = [("opq", "self")] + [("opq", f"a{i}") for i in range(1, len(fn.params))]
        ex = symex.Exec(ctx, fn, args)
        ex.run(havoc_unassigned=True, cut_loops=True)
        paths = [(pc, ca) for (pc, _), ca in zip(ex.returns, ex.return_callargs)] + [(pc, env.get("#callargs", ())) for pc, env in ex.cuts]
        neg_s = ex.typed_fresh("command::Command::is_subcommand_negates_reqs_set(self)", "bool")[1]
        con_s = ex.typed_fresh("command::Command::is_args_conflicts_with_subcommands_set(self)", "bool")[1]
        uses = set()
        n = 0
        for pc, ca in paths:
            cn = [c[0] for c in ca]
            if not any(x.endswith("is_subcommand_negates_reqs_set") or x.endswith("is_args_conflicts_with_subcommands_set") or x.endswith("get_required_usage_from") for x in cn):
                continue       # (_build_bin_names_internal: already built)
            n += 1
            called = any(x.endswith("get_required_usage_from") for x in cn)
            cond = f"(and (not {neg_s}) (not {con_s}))" if neg_s else "false"
            obs.append({"fn": fn.name, "block": "path", "kind": "spec", "target": "bin_name_twins",
                        "msg": f"{fname}: the required-arguments infix is computed exactly when neither subcommand_negates_reqs nor args_conflicts_with_subcommands is set",
                        "pc": list(pc), "neg": f"(not {cond})" if called else cond})
            for c in ca:
                if c[0] in ("Option::<String>::as_deref", "Option::<String>::as_ref") and re.match(r"^self\.\d+$", c[1][0]):
                    users = [d for d in ca if c[2] in d[1][:1]]
                    for d in users:
                        fb = d[1][1] if len(d[1]) > 1 else ""
                        fbk = "name" if re.match(r"^<.*Deref>::deref\(self\.\d+\)$|^self\.\d+$|^builder::str::Str::as_str\(self\.\d+\)$|.*as_str\(self", fb) else ('""' if fb in ('str:""',) else ("-" if not fb else "other"))
                        uses.add((c[1][0], c[0].split("::")[-1], d[0].split("::")[-1].split("<")[0], fbk))
        prefix[fname] = uses
        if n == 0:
            obs.append({"fn": fn.name, "block": "shape", "kind": "spec", "target": "bin_name_twins", "msg": f"{fname}: no path computes names", "pc": [], "neg": "true"})
        enc.append(_enc(fn, ex, n))
    # (1b) _build_subcommand names the subcommand on EVERY path that finds it (whether or not it is already built):
    #      usage_name and bin_name are assigned before it is returned
    bfn = _find(fns, "builder/command.rs", "_build_subcommand")
    bex = symex.Exec(ctx, bfn, [("opq", "self"), ("opq", "name")])
    bex.run(havoc_unassigned=True, cut_loops=True)
    n_some = 0
    for (pc, val), env in zip(bex.returns, bex.return_envs):
        if val[0] == "enum" and val[1] == "Some":
            n_some += 1
            stores = [k for k in env if k.startswith("place:") and k.endswith("std::option::Option<std::string::String>)")]
            obs.append({"fn": bfn.name, "block": "ret", "kind": "spec", "target": "bin_name_twins",
                        "msg": "_build_subcommand assigns the subcommand's usage_name and bin_name on every path that returns it", "pc": list(pc), "neg": "false" if len(stores) >= 2 else "true"})
    if n_some == 0:
        obs.append({"fn": bfn.name, "block": "shape", "kind": "spec", "target": "bin_name_twins", "msg": "_build_subcommand: no path returns the subcommand", "pc": [], "neg": "true"})
    # (2) the field read as the parent's bin_name is the one _build_bin_names_internal reads with unwrap_or(name / "")
    internal = {u for u in prefix.get("_build_bin_names_internal", ()) if u[2] == "unwrap_or"}
    fields = {u[0] for u in internal}
    sub = {u for u in prefix.get("_build_subcommand", ()) if u[0] in fields}
    same = bool(fields) and {(u[1], u[2], u[3]) for u in sub if u[0] in fields} <= {(u[1], u[2], u[3]) for u in internal} and bool(sub)
    obs.append({"fn": "command.rs", "block": "twins", "kind": "spec", "target": "bin_name_twins",
                "msg": "both functions take the parent prefix from self.bin_name the same way (as_deref().unwrap_or(name | \"\")): " + ("agree" if same else f"_build_subcommand uses {sorted((u[1], u[2], u[3]) for u in sub)}, _build_bin_names_internal {sorted((u[1], u[2], u[3]) for u in internal)}"),
                "pc": [], "neg": "false" if same else "true"})
    return ctx, obs, enc, con


SPECS["C11"].append(spec_bin_name_twins)


# cross-registration: kernels that serve more than one property
SPECS["C02"].append(spec_positional_counter)      # which positional a token is attributed to
SPECS["C07"].append(spec_react_index)             # every occurrence is opened through Parser::start_custom_arg (override removal)


# ------------------------------------------------------------------ C08/C09/C10: what counts as a candidate for subcommand inference

def spec_inference_candidates(fns, consts):
    """The candidate closures of prefix inference (executed from their own MIR): for possible_subcommand a
    subcommand is a candidate if its NAME starts with the token (offered under its name) and otherwise
    through the first of ALL its aliases - visible and hidden (`get_all_aliases`) - that starts with the
    token; for possible_long_flag_subcommand likewise through the long flag and ALL long-flag aliases."""
    con = contracts.Contracts(fns, default_pure=True)
    ctx = symex.Ctx(consts, con)
    obs, enc = [], []

    def add(fn, msg, pc, neg):
        obs.append({"fn": fn.name, "block": "ret", "kind": "spec", "target": "inference_candidates", "msg": msg, "pc": list(pc), "neg": neg})

    cand = [f.get() for n, f in fns.items() if re.search(r"parser/parser\.rs.*::possible_subcommand::\{closure#0\}$", n)]
    if len(cand) != 1:
        raise Unsupported("possible_subcommand: candidate closure not found")
    fn = cand[0]
    ex = symex.Exec(ctx, fn, [("opq", "env"), ("opq", "sc")]).run()
    sw = [ctx.keys[k] for k in ctx.keys if re.match(r"^core::str::<impl str>::starts_with::<&str>\(command::Command::get_name\(sc\),", k)]
    n_alias = 0
    for (pc, val), ca in zip(ex.returns, ex.return_callargs):
        if len(sw) != 1:
            add(fn, "the name test has an unexpected shape", pc, "true")
            continue
        if sw[0] in pc:
            ok = val[0] == "enum" and val[1] == "Some" and ex.key(val[2]) == "command::Command::get_name(sc)"
            add(fn, "a subcommand whose name starts with the token is a candidate under its name", pc, "false" if ok else "true")
        else:
            n_alias += 1
            finds = [c for c in ca if re.search(r" as Iterator>::find::<\{closure@", c[0])]
            ok = len(finds) == 1 and finds[0][1][0] == "command::Command::get_all_aliases(sc)" and val[0] == "opq" and val[1] == finds[0][2] \
                and not any(c[0].endswith(("::get_aliases", "::get_visible_aliases")) for c in ca)
            add(fn, "otherwise it is a candidate through the first of ALL its aliases (visible and hidden) that starts with the token", pc, "false" if ok else "true")
    # the alias predicate: alias.starts_with(token)
    pred = [f.get() for n, f in fns.items() if re.search(r"parser/parser\.rs.*::possible_subcommand::\{closure#0\}::\{closure#0\}$", n)]
    if len(pred) == 1:
        pex = symex.Exec(ctx, pred[0], [("opq", "penv"), ("opq", "alias")]).run()
        for pc, val in pex.returns:
            ks = [ctx.keys[k] for k in ctx.keys if re.match(r"^core::str::<impl str>::starts_with::<&str>\(alias,", k)]
            add(pred[0], "an alias matches iff it starts with the token", pc, f"(not (= {val[1]} {ks[0]}))" if (len(ks) == 1 and val[0] == "bool") else "true")
        enc.append(_enc(pred[0], pex, len(pex.returns)))
    else:
        add(fn, "alias predicate closure not found", [], "true")
    if n_alias == 0:
        add(fn, "no alias path in the candidate closure", [], "true")
    enc.append(_enc(fn, ex, len(ex.returns)))
    # long flag subcommands: decided by spec_long_flag_alias_inference
    return ctx, obs, enc, con


for _p in ("C08", "C09", "C10"):
    SPECS[_p].append(spec_inference_candidates)


# ------------------------------------------------------------------ C09: global arguments reach every subcommand

def spec_propagate_globals(fns, consts):
    """Command::_propagate_global_args, one pass of each loop from an arbitrary state: a subcommand is
    skipped exactly when it is named "help" AND the help subcommand is autogenerated (not disabled) -
    a user-defined `help` subcommand receives globals like any other; the arguments iterated are the
    parent's arguments filtered by `is_global_set()`; a global is pushed (as a clone) into the
    subcommand exactly when the subcommand does not already define that id."""
    con = contracts.Contracts(fns, default_pure=True)
    ctx = symex.Ctx(consts, con)
    fn = _find(fns, "builder/command.rs", "_propagate_global_args")
    ex = symex.Exec(ctx, fn, [("opq", "self")])
    ex.run(havoc_unassigned=True, cut_loops=True)
    obs = []

    def add(msg, pc, neg, block="loop"):
        obs.append({"fn": fn.name, "block": block, "kind": "spec", "target": "propagate_globals", "msg": msg, "pc": list(pc), "neg": neg})

    dis = ex.typed_fresh("command::Command::is_disable_help_subcommand_set(self)", "bool")[1]
    n_skip = n_push = 0

    def is_help_const(key):
        m = re.match(r"^const:(.*::promoted\[\d+\])$", key)
        if not m:
            return key == 'str:"help"'
        tail = "::".join(m.group(1).split("::")[-2:])
        cands = [v for k, v in consts.items() if k.startswith("promoted:") and k.endswith(tail) and "builder/command.rs" in k]
        return len(cands) == 1 and any(re.search(r'= const "help";', l) for l in cands[0][2])

    filter_ok = None
    for pc, env in ex.cuts:
        ca = env.get("#callargs", ())
        cn = [c[0] for c in ca]
        namecmp = [c for c in ca if re.search(r"^<&?str as PartialEq(<&?str>)?>::eq$", c[0]) and "Command::get_name(" in c[1][0] and is_help_const(c[1][1])]
        eq = ctx.keys.get(namecmp[-1][2]) if namecmp else None
        entered = any(re.search(r"MKeyMap::args$", x) for x in cn)
        finds = [c for c in ca if c[0].endswith("Command::find")]
        if not eq:
            add("every pass over a subcommand tests its name against `help`", pc, "true")
            continue
        if not entered:
            n_skip += 1
            add("a subcommand is skipped only when it is named `help` and the help subcommand is autogenerated", pc, f"(not (and {eq} (not {dis})))")
            continue
        add("globals are propagated into every subcommand that is not the autogenerated `help`", pc, f"(and {eq} (not {dis}))")
        if filter_ok is None:
            filt = [c for c in ca if re.search(r" as Iterator>::filter::<\{closure@", c[0])]
            filter_ok = False
            if filt:
                try:
                    cf = _closure_fn(fns, re.search(r"\{closure@[^}]*\}", filt[-1][0]).group(0))
                    cex = symex.Exec(ctx, cf, [("opq", "fenv"), ("opq", "garg")]).run()
                    gk = [ctx.keys[k] for k in ctx.keys if re.search(r"Arg::is_global_set\(garg\)$", k)]
                    filter_ok = len(cex.returns) == 1 and len(gk) == 1 and cex.returns[0][1][1] == gk[0] and "MKeyMap::args(self." in filt[-1][1][0]
                except Unsupported:
                    filter_ok = False
            add("the arguments propagated are the parent's arguments filtered by is_global_set()", pc, "false" if filter_ok else "true")
        if finds:
            pushed = any(re.search(r"MKeyMap::push$", x) for x in cn)
            iss = [c for c in ca if c[0] == "Option::<&Arg>::is_some" and finds[-1][2] in c[1][0]]
            some = ctx.keys.get(iss[-1][2]) if iss else None
            n_push += pushed
            clone_ok = (not pushed) or any(c[0] == "<Arg as Clone>::clone" for c in ca)
            add("a global argument is cloned into the subcommand exactly when the subcommand does not define that id yet", pc,
                "true" if (not clone_ok or not some) else (some if pushed else f"(not {some})"))
    if n_skip == 0 or n_push == 0:
        add("_propagate_global_args no longer has the reference shape (skip / push paths not found)", [], "true", block="shape")
    return ctx, obs, [_enc(fn, ex, len(ex.cuts))], con


SPECS["C09"].append(spec_propagate_globals)


# ------------------------------------------------------------------ C12: distinct short flags get distinct help sort keys

def spec_option_sort_key(fns, consts):
    """help_template.rs option_sort_key: options are stored in a BTreeMap keyed by (display order, key), so
    two visible options with equal display order and EQUAL keys overwrite each other and one vanishes from
    the help.  For short flags the key is lower(x) followed by '0'/'1'.  The data flow of the MIR (what is
    lower-cased, what is tested for being lower case, which suffix goes with which outcome) is extracted
    and the solver shows the key is injective on ASCII shorts: x != y => key(x) != key(y), with
    to_ascii_lowercase / is_ascii_lowercase given their exact bit-vector definitions."""
    con = contracts.Contracts(fns, default_pure=True)
    ctx = symex.Ctx(consts, con)
    fn = _find(fns, "", "option_sort_key")
    ex = symex.Exec(ctx, fn, [("opq", "arg")]).run()
    obs = []

    def add(msg, pc, neg, block="ret"):
        obs.append({"fn": fn.name, "block": block, "kind": "spec", "target": "option_sort_key", "msg": msg, "pc": list(pc), "neg": neg})

    short_paths = [(pc, val, ca) for (pc, val), ca in zip(ex.returns, ex.return_callargs) if any(c[0].endswith("::to_ascii_lowercase") or c[0].endswith("::is_ascii_lowercase") for c in ca)]
    ORIG = "Arg::get_short(arg)@Some.0"
    x, y = ctx.sym("short_x", "(_ BitVec 32)"), ctx.sym("short_y", "(_ BitVec 32)")

    def lower(t):
        return f"(ite (and (bvuge {t} (_ bv65 32)) (bvule {t} (_ bv90 32))) (bvadd {t} (_ bv32 32)) {t})"

    def islower(t):
        return f"(and (bvuge {t} (_ bv97 32)) (bvule {t} (_ bv122 32)))"

    def term(key, v):
        """the term a call-argument key denotes when the short flag is v"""
        if key == ORIG:
            return v
        m = re.match(r"^char::methods::<impl char>::to_ascii_lowercase\((.*)\)$", key)
        if m:
            return lower(term(m.group(1), v))
        raise Unsupported("option_sort_key: unexpected operand " + key[:60])

    suffix = {}   # outcome of the lower-case test -> pushed char
    first, tested = None, None
    try:
        for pc, val, ca in short_paths:
            low = [c for c in ca if c[0].endswith("::to_ascii_lowercase")]
            tst = [c for c in ca if c[0].endswith("::is_ascii_lowercase")]
            ts = [c for c in ca if c[0] == "<char as ToString>::to_string"]
            push = [c for c in ca if c[0] == "String::push"]
            if len(tst) != 1 or len(ts) != 1 or len(push) != 1:
                raise Unsupported("option_sort_key: short branch has an unexpected shape")
            first = ts[0][1][0]
            tested = tst[0][1][0]
            outcome = ctx.keys[tst[0][2]] in pc
            m = re.match(r"^\(_ bv(\d+) 32\)$", push[0][1][1])
            if not m:
                raise Unsupported("option_sort_key: pushed suffix is not a literal char")
            suffix[outcome] = int(m.group(1))
        if set(suffix) != {True, False}:
            raise Unsupported("option_sort_key: both outcomes of the case test are expected")

        def key_of(v):
            return term(first, v), f"(ite {islower(term(tested, v))} (_ bv{suffix[True]} 32) (_ bv{suffix[False]} 32))"
        (a1, s1), (a2, s2) = key_of(x), key_of(y)
        add("distinct ASCII short flags get distinct sort keys (so that neither option overwrites the other in the help)", [],
            f"(and (not (= {x} {y})) (bvult {x} (_ bv128 32)) (bvult {y} (_ bv128 32)) (= {a1} {a2}) (= {s1} {s2}))")
        add("the lower-case variant of a letter sorts before the upper-case one (suffix '0' < '1')", [], "false" if suffix[True] < suffix[False] else "true")
    except Unsupported as e:
        add("short-flag key: " + str(e), [], "true", block="shape")
    return ctx, obs, [_enc(fn, ex, len(short_paths))], con


SPECS["C12"].append(spec_option_sort_key)


# ------------------------------------------------------------------ known-finding clauses (defects of the unmodified code that are recorded, not repaired)

def spec_long_flag_subcommand_value(fns, consts):
    """Parser::parse_long_arg: a token `--name=value` whose name is a long flag SUBCOMMAND must not be
    dispatched as that subcommand while silently dropping `value` (C02: every token is consumed exactly
    once or the line is rejected): on every path returning FlagSubCommand the attached value is None."""
    con = contracts.Contracts(fns, default_pure=True)
    ctx = symex.Ctx(consts, con)
    fn = _find(fns, "parser/parser.rs", "parse_long_arg")
    names = []
    for i, (loc, ty) in enumerate(fn.params):
        names.append("self" if i == 0 else ("parse_state" if "ParseState" in ty else ("long_value" if ty.strip().startswith("Option<&std::ffi::OsStr>") else f"pla_a{i}")))
    ex = symex.Exec(ctx, fn, [("opq", n) for n in names])
    ex.run(havoc_unassigned=True, cut_loops=True)
    lv = ex.typed_fresh("discr(long_value)", "isize")[1]
    obs, n = [], 0
    for pc, val in ex.returns:
        if val[0] == "enum" and val[1] == "Ok" and val[2] is not None and "FlagSubCommand" in ex.key(val[2]):
            n += 1
            obs.append({"fn": fn.name, "block": "ret", "kind": "spec", "target": "long_flag_subcommand_value",
                        "msg": "a long flag subcommand is dispatched only when the token carries no `=value` (an attached value is never dropped silently)", "pc": list(pc), "neg": f"(= {lv} (_ bv1 64))"})
    if n == 0:
        obs.append({"fn": fn.name, "block": "shape", "kind": "spec", "target": "long_flag_subcommand_value", "msg": "parse_long_arg: no path returns FlagSubCommand", "pc": [], "neg": "true"})
    return ctx, obs, [_enc(fn, ex, n)], con


def spec_long_flag_alias_inference(fns, consts):
    """Parser::possible_long_flag_subcommand's candidate closure (executed from its MIR): a subcommand is
    an inference candidate, under its name, exactly when its primary long flag starts with the token OR
    any of ALL its long-flag aliases does - whether or not it declares a primary long flag (exact matching
    accepts alias-only subcommands, so a unique prefix must be accepted and an ambiguous one rejected);
    the two inner predicates are `x.starts_with(token)`."""
    con = contracts.Contracts(fns, default_pure=True)
    ctx = symex.Ctx(consts, con)
    outer = [f.get() for n, f in fns.items() if re.search(r"parser/parser\.rs.*::possible_long_flag_subcommand::\{closure#0\}$", n)]
    if len(outer) != 1:
        raise Unsupported("possible_long_flag_subcommand: candidate closure not found")
    fn = outer[0]
    ex = symex.Exec(ctx, fn, [("opq", "env"), ("opq", "sc")]).run()
    obs, enc = [], [_enc(fn, ex, len(ex.returns))]

    def add(f, msg, pc, neg):
        obs.append({"fn": f.name, "block": "ret", "kind": "spec", "target": "long_flag_alias_inference", "msg": msg, "pc": list(pc), "neg": neg})

    prim = [ctx.keys[k] for k in ctx.keys if re.match(r"^Option::<bool>::unwrap_or\(Option::<&str>::map::<bool, .*>\(command::Command::get_long_flag\(sc\),.*\),false\)$", k)]
    anyk = [ctx.keys[k] for k in ctx.keys if re.match(r"^<.* as Iterator>::any::<\{closure@[^}]*\}>\(command::Command::get_all_long_flag_aliases\(sc\),", k)]
    if len(prim) != 1 or len(anyk) != 1:
        for pc, val in ex.returns:
            add(fn, "long-flag aliases make a subcommand an inference candidate even when it declares no primary long flag (reference shape: primary.starts_with || aliases.any(starts_with))", pc, "true")
        return ctx, obs, enc, con
    cond = f"(or {prim[0]} {anyk[0]})"
    for pc, val in ex.returns:
        is_some = val[0] == "enum" and val[1] == "Some"
        named = is_some and ex.key(val[2]) == "command::Command::get_name(sc)"
        add(fn, "a subcommand is a long-flag inference candidate (under its name) iff its long flag or ANY of its long-flag aliases starts with the token", pc,
            "true" if (is_some and not named) else (f"(not {cond})" if is_some else cond))
    for sub, item in (("{closure#0}", "long"), ("{closure#1}", "alias")):
        c = [f.get() for n, f in fns.items() if n == fn.name + "::" + sub]
        if len(c) != 1:
            add(fn, f"inner predicate {sub} not found", [], "true")
            continue
        cex = symex.Exec(ctx, c[0], [("opq", f"lf_env_{item}"), ("opq", f"lf_{item}")]).run()
        ks = [ctx.keys[k] for k in ctx.keys if re.match(rf"^core::str::<impl str>::starts_with::<&str>\(lf_{item},", k)]
        for pc, val in cex.returns:
            add(c[0], f"the {item} predicate is `starts_with(token)`", pc, f"(not (= {val[1]} {ks[0]}))" if (len(ks) == 1 and val[0] == "bool") else "true")
        enc.append(_enc(c[0], cex, len(cex.returns)))
    return ctx, obs, enc, con


def spec_option_sort_key_kinds(fns, consts):
    """option_sort_key across kinds: the two-character key of a short flag (lower(x), '0'|'1') must not be
    producible as the key of a long-only option (its long name), or the two overwrite each other in the
    help map when they share a display order."""
    con = contracts.Contracts(fns, default_pure=True)
    ctx = symex.Ctx(consts, con)
    fn = _find(fns, "", "option_sort_key")
    ex = symex.Exec(ctx, fn, [("opq", "arg")]).run()
    long_paths = [ca for (pc, val), ca in zip(ex.returns, ex.return_callargs) if any(c[0] == "<str as ToString>::to_string" and "Arg::get_long(arg)" in c[1][0] for c in ca)]
    x = ctx.sym("short_x", "(_ BitVec 32)")
    c1, c2 = ctx.sym("long_char_1", "(_ BitVec 32)"), ctx.sym("long_char_2", "(_ BitVec 32)")
    lower = f"(ite (and (bvuge {x} (_ bv65 32)) (bvule {x} (_ bv90 32))) (bvadd {x} (_ bv32 32)) {x})"
    islower = f"(and (bvuge {x} (_ bv97 32)) (bvule {x} (_ bv122 32)))"
    obs = []
    # the long key is the long name itself (verbatim): a two-character long name can equal a short key
    verbatim = bool(long_paths) and all(not any(c[0] in ("String::push", "String::push_str") for c in ca) for ca in long_paths)
    obs.append({"fn": fn.name, "block": "ret", "kind": "spec", "target": "option_sort_key_kinds",
                "msg": "no two-character long name equals the sort key of a short flag (keys of different kinds cannot collide)", "pc": [],
                "neg": (f"(and (bvult {x} (_ bv128 32)) (bvugt {x} (_ bv32 32)) (= {c1} {lower}) (= {c2} (ite {islower} (_ bv48 32) (_ bv49 32))))" if verbatim else "false")})
    return ctx, obs, [_enc(fn, ex, len(long_paths))], con


SPECS["C02"].append(spec_long_flag_subcommand_value)
SPECS["C08"].append(spec_long_flag_alias_inference)
SPECS["C12"].append(spec_option_sort_key_kinds)


# ------------------------------------------------------------------ C03/C10: the phases of Validator::validate

def spec_validate_phases(fns, consts):
    """Validator::validate, every return path: (a) help-instead-of-error is chosen exactly when there is no
    subcommand, arg_required_else_help is set and the NUMBER OF EXPLICITLY PRESENT ARGUMENTS
    (`args().filter(check_explicit(IsPresent)).count()`, not a number of values) is zero; (b) a missing
    subcommand is reported exactly when there is none and one is required; (c) on every other path the
    conflict pass runs - whatever subcommand_negates_reqs says - and before the required pass; (d) the
    required pass is skipped exactly when subcommand_negates_reqs is set and a subcommand is present;
    an error of a pass is returned as it is."""
    con = contracts.Contracts(fns, default_pure=True)
    ctx = symex.Ctx(consts, con)
    fn = _find(fns, "parser/validator.rs", "validate")
    ex = symex.Exec(ctx, fn, [("opq", "self"), ("opq", "matcher")])
    ex.run(havoc_unassigned=True, cut_loops=True)
    obs = []

    def add(msg, pc, neg, block="ret"):
        obs.append({"fn": fn.name, "block": block, "kind": "spec", "target": "validate_phases", "msg": msg, "pc": list(pc), "neg": neg})

    def sym(rx, ty):
        ks = [k for k in ctx.keys if re.search(rx, k)]
        return ctx.keys[ks[0]] if len(ks) == 1 else None

    has_sub = sym(r"^Option::<&str>::is_some\(ArgMatcher::subcommand_name\(", "bool") or sym(r"^is_some\(ArgMatcher::subcommand_name\(", "bool")
    areh = sym(r"^command::Command::is_arg_required_else_help_set\(", "bool")
    sreq = sym(r"^command::Command::is_subcommand_required_set\(", "bool")
    negr = sym(r"^command::Command::is_subcommand_negates_reqs_set\(", "bool")
    cnt = [k for k in ctx.keys if re.search(r" as Iterator>::count\(", k)]
    if not all((has_sub, areh, sreq, negr)) or len(cnt) != 1:
        add("Validator::validate no longer has the reference shape (predicates not found)", [], "true", block="shape")
        return ctx, obs, [_enc(fn, ex, 0)], con
    count = ctx.keys[cnt[0]]
    # the counted iterator: matcher.args() filtered by a closure equal to check_explicit(IsPresent)
    count_ok = re.search(r"count\(<flat_map::Iter<'_, Id, MatchedArg> as Iterator>::filter::<\{closure@[^}]*\}>\(ArgMatcher::args\(", cnt[0]) is not None and "::map::<" not in cnt[0] and "::sum" not in cnt[0]
    add("arg_required_else_help counts the explicitly present ARGUMENTS (matcher.args().filter(..).count())", [], "false" if count_ok else "true", block="shape")
    help_c = f"(and (not {has_sub}) {areh} (= {count} (_ bv0 64)))"
    miss_c = f"(and (not {has_sub}) {sreq})"
    for (pc, val), ca in zip(ex.returns, ex.return_callargs):
        cn = [c[0] for c in ca]
        is_help = any(x.endswith("Error::display_help_error") for x in cn)
        is_missing = any(x.endswith("Error::missing_subcommand") for x in cn)
        i_conf = [i for i, x in enumerate(cn) if x.endswith("::validate_conflicts")]
        i_req = [i for i, x in enumerate(cn) if x.endswith("::validate_required")]
        add("help is shown instead of an error exactly when there is no subcommand, arg_required_else_help is set and no argument is explicitly present", pc, f"(not {help_c})" if is_help else help_c)
        if not is_help:
            add("a missing subcommand is reported exactly when none is present and one is required", pc, f"(not {miss_c})" if is_missing else miss_c)
        if is_help or is_missing:
            add("nothing else is validated once help or a missing subcommand is reported", pc, "true" if (i_conf or i_req) else "false")
            continue
        add("the conflict pass runs on every other path, once, and before the required pass", pc, "false" if (len(i_conf) == 1 and (not i_req or i_conf[0] < i_req[0])) else "true")
        skip_c = f"(and {negr} {has_sub})"
        conf_err = False
        if i_conf:
            r = ex.typed_fresh(f"discr({ca[i_conf[0]][2]})", "isize")[1]
            conf_err = f"(= {r} (_ bv1 64))" in pc
        if not conf_err:
            add("the required pass is skipped exactly when subcommand_negates_reqs is set and a subcommand is present", pc, skip_c if i_req else f"(not {skip_c})")
    return ctx, obs, [_enc(fn, ex, len(ex.returns))], con


SPECS["C03"].append(spec_validate_phases)
SPECS["C10"].append(spec_validate_phases)


# ------------------------------------------------------------------ C05/C02: the first trailing value index is recorded once

def spec_trailing_idx_once(fns, consts):
    """ArgMatcher::pending_values_mut and ArgMatcher::start_trailing: the index of the FIRST value after
    `--` is recorded with `get_or_insert(raw_vals.len())` - set when still unset, never moved afterwards -
    exactly on the paths where trailing_values is true (pending_values_mut) / a pending argument exists
    (start_trailing); no path stores to `trailing_idx` directly."""
    con = contracts.Contracts(fns, default_pure=True)
    ctx = symex.Ctx(consts, con)
    obs, enc = [], []

    def add(fn, msg, pc, neg):
        obs.append({"fn": fn.name, "block": "ret", "kind": "spec", "target": "trailing_idx_once", "msg": msg, "pc": list(pc), "neg": neg})

    for fname, nargs in (("pending_values_mut", 4), ("start_trailing", 1)):
        fn = _find(fns, "parser/arg_matcher.rs", fname)
        tv = ("bool", ctx.sym(f"{fname}:trailing_values", "Bool"))
        args = [("opq", "self"), ("opq", "id"), ("opq", "ident"), tv][:len(fn.params)]
        ex = symex.Exec(ctx, fn, args)
        ex.run(havoc_unassigned=True, cut_loops=True)
        n = 0
        for (pc, val), ca, env in zip(ex.returns, ex.return_callargs, ex.return_envs):
            n += 1
            goi = [c for c in ca if c[0] == "Option::<usize>::get_or_insert"]
            lens = [c for c in ca if c[0] == "Vec::<OsString>::len"]
            direct = [k for k in env if k.startswith("place:") and re.search(r"Option<usize>\)$|: std::option::Option<usize>\)$", k)]
            shape = len(goi) <= 1 and not direct and (not goi or (len(lens) >= 1 and goi[0][1][1] == ctx.keys.get(lens[-1][2], lens[-1][2]) or (goi and lens and lens[-1][2] in goi[0][1][1]) or (goi and lens and goi[0][1][1] == f"len({lens[-1][2]})")))
            if fname == "pending_values_mut":
                add(fn, "the first trailing index is recorded (get_or_insert(raw_vals.len()), never a plain store) exactly when trailing_values is set", pc,
                    "true" if not shape else (f"(not {tv[1]})" if goi else tv[1]))
            else:
                add(fn, "start_trailing records the first trailing index with get_or_insert(raw_vals.len()) when an argument is pending", pc, "false" if shape else "true")
        if n == 0:
            add(fn, f"{fname}: no return path", [], "true")
        enc.append(_enc(fn, ex, n))
    return ctx, obs, enc, con


SPECS["C05"].append(spec_trailing_idx_once)
SPECS["C02"].append(spec_trailing_idx_once)


# ------------------------------------------------------------------ C09: a word is tested for being a subcommand only between arguments

def spec_subcommand_dispatch_guard(fns, consts):
    """One iteration of Parser::parse's token loop, entered before any `--` (trailing_values == false): the
    token is handed to subcommand recognition at the top of the iteration - before the escape test -
    only if subcommand_precedence_over_arg is set or the parser is NOT in the middle of collecting the
    values of an option or of a positional (parse_state is neither Opt nor Pos); so a value of a
    multi-value argument is never dispatched as a subcommand the line did not name."""
    con = contracts.Contracts(fns, default_pure=True)
    ctx = symex.Ctx(consts, con)
    fn = _find(fns, "parser/parser.rs", "parse")
    tv = fn.debug.get("trailing_values")
    ps = fn.debug.get("parse_state")
    hdr = [b for b, blk in fn.blocks.items() if any(re.search(r"= RawArgs::next\(", s) for s in blk["stmts"])]
    if not tv or not ps or len(hdr) != 1:
        raise Unsupported("Parser::parse: token loop / trailing_values / parse_state not found")
    header = hdr[0]
    nxt = re.search(r"return: (bb\d+)", [s for s in fn.blocks[header]["stmts"] if "RawArgs::next(" in s][0]).group(1)
    sw = [s for s in fn.blocks[nxt]["stmts"] if s.startswith("switchInt")]
    m = re.search(r"\[1: (bb\d+)", sw[0]) if sw else None
    if not m:
        raise Unsupported("Parser::parse: `while let Some(..)` shape not found")
    body = m.group(1)
    tok_local = re.match(r"^(_\d+) = RawArgs::next", [s for s in fn.blocks[header]["stmts"] if "RawArgs::next(" in s][0]).group(1)
    ex = symex.Exec(ctx, fn, [("opq", "self"), ("opq", "matcher"), ("opq", "raw_args"), ("opq", "cursor")])
    ex.run(start=body, stop_at=header, env={tv: ("bool", "false"), tok_local: ("opq", "next_token"), ps: ("opq", "parse_state")}, havoc_unassigned=True, cut_loops=True)
    d = ex.typed_fresh("discr(parse_state)", "isize")[1]
    prec = ex.typed_fresh("command::Command::is_subcommand_precedence_over_arg_set(self.0)", "bool")[1]
    obs, n_top = [], 0
    paths = [(pc, env.get("#callargs", ())) for pc, env in ex.stops] + [(pc, ca) for (pc, _), ca in zip(ex.returns, ex.return_callargs)] + [(pc, env.get("#callargs", ())) for pc, env in ex.cuts]
    seen = set()
    for pc, ca in paths:
        cn = [c[0] for c in ca]
        esc = [i for i, x in enumerate(cn) if x.endswith("::is_escape")]
        first = [i for i, x in enumerate(cn) if x.endswith("::possible_subcommand") and (not esc or i < esc[0])]
        if not first:
            continue
        key = tuple(c for c in pc if re.search(rf"(?<!\w)({re.escape(d)}|{re.escape(prec)})(?!\w)", c))
        if key in seen:
            continue
        seen.add(key)
        n_top += 1
        tok = "next_token" in ca[first[0]][1][1]
        obs.append({"fn": fn.name, "block": "body", "kind": "spec", "target": "subcommand_dispatch_guard",
                    "msg": "the token is tested for being a subcommand (before the escape test) only with subcommand precedence or outside an option's / positional's values",
                    "pc": list(key), "neg": "true" if not tok else f"(and (not {prec}) (or (= {d} (_ bv1 64)) (= {d} (_ bv2 64))))"})
    if n_top == 0:
        obs.append({"fn": fn.name, "block": "shape", "kind": "spec", "target": "subcommand_dispatch_guard", "msg": "Parser::parse: no path tests the token for being a subcommand before the escape test", "pc": [], "neg": "true"})
    return ctx, obs, [{"function": fn.name + f" [one loop iteration {body}..{header}, trailing_values = false]", "mir_line": fn.line, "mir_blocks": len(fn.blocks), "obligations": len(obs), "return_paths": len(paths)}], con


SPECS["C09"].append(spec_subcommand_dispatch_guard)


# ------------------------------------------------------------------ C12: the template that lists items is used whenever something is listable

def spec_auto_help_template(fns, consts):
    """AutoHelp::write_help: the default template containing `{all-args}` (the one that lists options,
    positionals AND subcommands) is chosen exactly when a positional is shown, or a non-positional is shown
    (both via should_show_arg for the current mode), or the command has visible subcommands; the bare
    template (no item sections at all) only when none of the three holds."""
    con = contracts.Contracts(fns, default_pure=True)
    ctx = symex.Ctx(consts, con)
    c = [f for n, f in fns.items() if n.endswith("::write_help") and "help_template.rs" in n and "AutoHelp" in f.get().params[0][1]]
    if len(c) != 1:
        raise Unsupported("AutoHelp::write_help not found exactly once")
    fn = c[0].get()
    ex = symex.Exec(ctx, fn, [("opq", "self")]).run()
    obs = []

    def add(msg, pc, neg, block="ret"):
        obs.append({"fn": fn.name, "block": block, "kind": "spec", "target": "auto_help_template", "msg": msg, "pc": list(pc), "neg": neg})

    def lit(name):
        v = consts.get(name) or consts.get("output::help_template::" + name)
        return v[2] if v else ""
    full_has = "{all-args}" in lit("DEFAULT_TEMPLATE")
    bare_has = "{all-args}" in lit("DEFAULT_NO_ARGS_TEMPLATE") or "{subcommands}" in lit("DEFAULT_NO_ARGS_TEMPLATE")
    add("DEFAULT_TEMPLATE lists items ({all-args}); DEFAULT_NO_ARGS_TEMPLATE does not", [], "false" if (full_has and not bare_has) else "true", block="shape")
    anys = [k for k in ctx.keys if re.search(r" as Iterator>::any::<\{closure@clap_builder/src/output/help_template\.rs", k)]
    pos = [ctx.keys[k] for k in anys if "Command::get_positionals(" in k]
    non = [ctx.keys[k] for k in anys if "Command::get_non_positionals(" in k]
    sub = [ctx.keys[k] for k in ctx.keys if re.match(r"^command::Command::has_visible_subcommands\(", k)]
    if len(pos) != 1 or len(non) != 1 or len(sub) != 1:
        add("AutoHelp::write_help no longer has the reference shape (the three visibility tests)", [], "true", block="shape")
        return ctx, obs, [_enc(fn, ex, 0)], con
    cond = f"(or {pos[0]} {non[0]} {sub[0]})"
    for (pc, val), ca in zip(ex.returns, ex.return_callargs):
        w = [c for c in ca if c[0].endswith("::write_templated_help")]
        if len(w) != 1:
            add("the help is written through exactly one template", pc, "true")
            continue
        t = w[0][1][1]
        if t.startswith("str:") and "{usage}" in t and "{all-args}" not in t and "{subcommands}" not in t:
            add("the bare template is used only when nothing is listable", pc, cond)
        elif t.startswith("str:") and "{all-args}" in t:
            add("the listing template is used only when something is listable", pc, f"(not {cond})")
        else:
            add("an unexpected template is used: " + t[:40], pc, "true")
    # the two predicates are should_show_arg(use_long, arg)
    for k in anys:
        loc = re.search(r"\{closure@clap_builder/src/output/help_template\.rs[^}]*\}", k).group(0)
        try:
            cf = _closure_fn(fns, loc)
            cex = symex.Exec(ctx, cf, [("opq", "ah_env"), ("opq", "ah_arg")]).run()
            ok = len(cex.returns) == 1 and cex.returns[0][1][0] == "bool" and any(c[0] == "should_show_arg" and "ah_arg" in c[1][1] for c in cex.return_callargs[0]) and cex.returns[0][1][1] == ctx.keys.get([c for c in cex.return_callargs[0] if c[0] == "should_show_arg"][0][2])
        except Unsupported:
            ok = False
        add("an argument counts as listable iff should_show_arg(use_long, arg)", [], "false" if ok else "true", block="closure")
    return ctx, obs, [_enc(fn, ex, len(ex.returns))], con


SPECS["C12"].append(spec_auto_help_template)


# ------------------------------------------------------------------ C18: an option awaits a value only when none was attached

def spec_complete_option_state(fns, consts):
    """clap_complete::engine::complete, one pass of its token loop: the shadow parse enters the state
    "option awaiting its value" (`ParseState::Opt((opt, 1))`) only on paths where the word carried no
    attached value - `--opt` without `=value` (the value half of `to_long` is None) for long flags, nothing
    left in the cluster (`next_value_os()` is None) for short flags - and, for long flags, only if the
    option takes values."""
    con = contracts.Contracts(fns, default_pure=True)
    ctx = symex.Ctx(consts, con)
    cfn = fns["complete"].get()
    hdr = [b for b, blk in cfn.blocks.items() if any(re.search(r"= RawArgs::next\(", s) for s in blk["stmts"])]
    ns = cfn.debug.get("next_state")
    if len(hdr) != 1 or not ns:
        raise Unsupported("clap_complete::engine::complete: loop header / next_state not found")
    ex = symex.Exec(ctx, cfn, [("opq", "cmd"), ("opq", "args"), ("bv", ctx.sym("arg_index", "(_ BitVec 64)"), 64), ("opq", "current_dir")])
    esc_l = cfn.debug.get("is_escaped")
    esc = ("bool", ctx.sym("is_escaped", "Bool"))
    ex.run(start=hdr[0], stop_at=hdr[0], env={ns: ("opq", "state_in"), **({esc_l: esc} if esc_l else {})}, havoc_unassigned=True, cut_loops=True)
    obs, n_long, n_short = [], 0, 0
    # the level is advanced (find_subcommand consulted) only where the real parser would look for a subcommand:
    # not after `--`, and not while an option / multi-value positional is taking values (unless subcommand precedence)
    d_in = ex.typed_fresh("discr(state_in)", "isize")[1]
    prec = [ctx.keys[k] for k in ctx.keys if re.search(r"Command::is_subcommand_precedence_over_arg_set\(", k)]
    n_desc = 0
    for pc, env in ex.stops:
        ca = env.get("#callargs", ())
        if any(re.search(r"Command::find_subcommand(::<.*>)?$", c[0]) for c in ca):
            n_desc += 1
            guard = f"(and (not {esc[1]}) (or {prec[0]} (= {d_in} (_ bv0 64))))" if (len(prec) == 1 and esc_l) else "false"
            obs.append({"fn": cfn.name, "block": "loop", "kind": "spec", "target": "complete_option_state",
                        "msg": "a word is looked up as a subcommand only before `--` and outside an option's / multi-value positional's values (or with subcommand precedence), like the parser",
                        "pc": list(pc), "neg": f"(not {guard})"})
    if n_desc == 0:
        obs.append({"fn": cfn.name, "block": "shape", "kind": "spec", "target": "complete_option_state", "msg": "complete: no path looks a word up as a subcommand", "pc": [], "neg": "true"})
    for pc, env in ex.stops:
        v = env.get(ns)
        if not v or v[0] != "opq" or not re.match(r"^variant:.*::Opt\(\(", v[1]) or not v[1].endswith(",(_ bv1 64)))"):
            continue
        ca = env.get("#callargs", ())
        nones = [c for c in ca if re.match(r"^Option::<&(std::ffi::)?OsStr>::is_none$", c[0])]
        is_long = "as Iterator>::find::<" in v[1]
        if is_long:
            n_long += 1
            good = [c for c in nones if re.search(r"to_long\(.*\)@Some\.0\.1$", c[1][0])]
            tv = [c for c in ca if c[0] == "ValueRange::takes_values"]
            ok = len(good) == 1 and len(tv) == 1
            none_t = f"(not {ctx.keys.get('is_some(' + good[0][1][0] + ')')})" if ok else None
            neg = "true" if (not ok or "None" in none_t) else f"(not (and {none_t} {ctx.keys.get(tv[0][2])}))"
            obs.append({"fn": cfn.name, "block": "loop", "kind": "spec", "target": "complete_option_state", "msg": "a long option awaits a value only if it takes values and the word had no `=value` attached", "pc": list(pc), "neg": neg})
        else:
            n_short += 1
            good = [c for c in nones if "next_value_os(" in c[1][0]]
            ok = len(good) == 1
            obs.append({"fn": cfn.name, "block": "loop", "kind": "spec", "target": "complete_option_state", "msg": "a short option awaits a value only if nothing is left in the cluster after it", "pc": list(pc),
                        "neg": "true" if (not ok or not ctx.keys.get('is_some(' + good[0][1][0] + ')')) else ctx.keys.get('is_some(' + good[0][1][0] + ')')})
    if n_long == 0 or n_short == 0:
        obs.append({"fn": cfn.name, "block": "shape", "kind": "spec", "target": "complete_option_state", "msg": "complete: no path enters the option-awaits-value state through a long / short flag", "pc": [], "neg": "true"})
    # the option a flag names is looked up through its primary spelling and ALL its aliases (hidden ones are accepted by the parser too)
    lookups = []
    for pc, env in ex.stops:
        for c in env.get("#callargs", ()):
            m = re.match(r"^<std::slice::Iter<'_, Arg> as Iterator>::find::<(\{closure@clap_complete/src/engine/complete\.rs:[\d: ]+\})>$", c[0])
            if m and ("long", m.group(1)) not in lookups:
                lookups.append(("long", m.group(1)))
    psf = fns.get("parse_shortflags")
    if psf is not None:
        for blk in psf.get().blocks.values():
            for st in blk["stmts"]:
                m = re.search(r"<std::slice::Iter<'_, Arg> as Iterator>::find::<(\{closure@clap_complete/src/engine/complete\.rs:[\d: ]+\})>", st)
                if m and ("short", m.group(1)) not in lookups:
                    lookups.append(("short", m.group(1)))
    if {k for k, _ in lookups} != {"long", "short"}:
        obs.append({"fn": cfn.name, "block": "shape", "kind": "spec", "target": "complete_option_state", "msg": "the option lookups of the shadow parse (long in complete, short in parse_shortflags) were not found", "pc": [], "neg": "true"})
    for kind, loc in lookups:
        try:
            cf = _closure_fn(fns, loc)
            cex = symex.Exec(ctx, cf, [("opq", "lk_env"), ("opq", "lk_arg")]).run(cut_loops=True)
            calls = {c[0] for ca in list(cex.return_callargs) + [e.get("#callargs", ()) for _, e in cex.cuts] for c in ca}
            want_all = "Arg::get_all_aliases" if kind == "long" else "Arg::get_all_short_aliases"
            ok = want_all in calls and not any(x.endswith("_and_visible_aliases") or x.endswith("get_visible_aliases") or x.endswith("get_visible_short_aliases") for x in calls)
        except Unsupported:
            ok = False
        obs.append({"fn": cfn.name, "block": "closure", "kind": "spec", "target": "complete_option_state",
                    "msg": f"the shadow parse recognises a {kind} option through its primary spelling and ALL its aliases, hidden ones included", "pc": [], "neg": "false" if ok else "true"})
    return ctx, obs, [_enc(cfn, ex, len(ex.stops))], con


spec_complete_option_state.crate = "clap_complete"
SPECS["C18"].append(spec_complete_option_state)


# ------------------------------------------------------------------ C18: the shell adapters never panic on their index arithmetic

def spec_shell_adapter_index(fns, consts):
    """clap_complete::env::{Bash, Elvish, Fish, Powershell, Zsh}::write_complete (public trait methods):
    no integer overflow / underflow edge is reachable for ANY argument vector - in particular the cursor
    index computed as `args.len() - 1` must not underflow for an empty vector (nothing after `--`)."""
    con = contracts.Contracts(fns, default_pure=True)
    ctx = symex.Ctx(consts, con)
    obs, enc = [], []
    bodies = [(n, f) for n, f in fns.items() if re.search(r"^env::shells::<impl at clap_complete/src/env/shells\.rs:[\d: ]+>::write_complete$", n)]
    if len(bodies) < 4:
        raise Unsupported(f"clap_complete: expected the shell adapters' write_complete bodies, found {len(bodies)}")
    for n, f in sorted(bodies):
        fn = f.get()
        shell = re.search(r"&env::shells::(\w+)", fn.params[0][1])
        ex = symex.Exec(ctx, fn, [("opq", "self"), ("opq", "cmd"), ("opq", f"args_{shell.group(1) if shell else 'x'}"), ("opq", "current_dir"), ("opq", "buf")])
        ex.run(havoc_unassigned=True, cut_loops=True)
        k = 0
        for o in ex.obligations:
            if o["kind"] == "assert":
                o2 = dict(o)
                o2.update({"kind": "spec", "target": "shell_adapter_index", "msg": f"{shell.group(1) if shell else n}::write_complete: " + o["msg"][:70]})
                obs.append(o2)
                k += 1
        enc.append(_enc(fn, ex, k))
    if not obs:
        # nothing to discharge is a fine outcome (no checked arithmetic left); keep one trivially true record for the evidence
        obs.append({"fn": "env::shells", "block": "shape", "kind": "spec", "target": "shell_adapter_index", "msg": "no checked arithmetic in the shell adapters' write_complete", "pc": [], "neg": "false"})
    return ctx, obs, enc, con


spec_shell_adapter_index.crate = "clap_complete"
SPECS["C18"].append(spec_shell_adapter_index)


# ------------------------------------------------------------------ C19: the version section never panics

def spec_mangen_version(fns, consts):
    """clap_mangen render::version and Man::_render_version_section (reached by the PUBLIC
    Man::render_version_section for any command): no Option::unwrap / expect is applied to a lookup that
    can be None - the section is rendered from whichever of long_version / version exists and is empty
    when neither does."""
    con = contracts.Contracts(fns, default_pure=True)
    con.check_unwrap = r".*"
    ctx = symex.Ctx(consts, con)
    obs, enc = [], []
    for name in ("version", "_render_version_section"):
        c = [f for n, f in fns.items() if n == name or n.endswith("::" + name)]
        if len(c) != 1:
            obs.append({"fn": "clap_mangen", "block": "shape", "kind": "spec", "target": "mangen_version", "msg": f"{name} not found exactly once", "pc": [], "neg": "true"})
            continue
        fn = c[0].get()
        ex = symex.Exec(ctx, fn, [("opq", f"mv_a{i}") for i in range(len(fn.params))])
        ex.run(havoc_unassigned=True, cut_loops=True)
        k = 0
        for o in ex.obligations:
            if o["kind"] == "panic":
                o2 = dict(o)
                o2.update({"kind": "spec", "target": "mangen_version", "msg": f"{name}: " + o["msg"][:90]})
                obs.append(o2)
                k += 1
        # an eager `.unwrap()` hidden in an argument position shows up as a call too
        for ca in list(ex.return_callargs) + [e.get("#callargs", ()) for _, e in ex.cuts]:
            for cl in ca:
                if re.search(r"^Option::<.*>::(unwrap|expect)$", cl[0]) and not any(cl[0] in o["msg"] or True for o in obs if o["fn"] == fn.name):
                    obs.append({"fn": fn.name, "block": "call", "kind": "spec", "target": "mangen_version", "msg": f"{name}: {cl[0]} on a value that can be None", "pc": [], "neg": "true"})
                    k += 1
        enc.append(_enc(fn, ex, k))
    if not obs:
        obs.append({"fn": "clap_mangen", "block": "shape", "kind": "spec", "target": "mangen_version", "msg": "no unwrap/expect in the version rendering", "pc": [], "neg": "false"})
    return ctx, obs, enc, con


spec_mangen_version.crate = "clap_mangen"
SPECS["C19"].append(spec_mangen_version)


# ------------------------------------------------------------------ C19: user text cannot start a roff request through a request's arguments

def split_top_level(text):
    out, depth, cur = [], 0, ""
    for ch in text:
        if ch in "([{<":
            depth += 1
        elif ch in ")]}>":
            depth -= 1
        if ch == "," and depth == 0:
            out.append(cur)
            cur = ""
        else:
            cur += ch
    if cur:
        out.append(cur)
    return out


def spec_mangen_control_args(fns, consts):
    """clap_mangen: `Roff::control(name, args)` writes `.name arg ...` on one line; an argument that
    contains a line break would start a new line the reader takes for a request.  In every section
    renderer of lib.rs each argument of a control call is either a literal or derived from user text only
    through `control_arg` (which removes line breaks: its MIR is `str::replace([\\n, \\r], " ")`), and the
    `.TH` arguments are the elements of title_args(), whose mapping closure applies control_arg."""
    con = contracts.Contracts(fns, default_pure=True)
    ctx = symex.Ctx(consts, con)
    obs, enc = [], []

    def add(fn, msg, ok):
        obs.append({"fn": fn, "block": "call", "kind": "spec", "target": "mangen_control_args", "msg": msg, "pc": [], "neg": "false" if ok else "true"})

    n_calls = 0
    for n, f in sorted(fns.items()):
        if "lib.rs" not in n or "closure" in n or not re.search(r"::_render_\w+$", n):
            continue
        fn = f.get()
        ex = symex.Exec(ctx, fn, [("opq", "self"), ("opq", "roff")][:len(fn.params)])
        ex.run(havoc_unassigned=True, cut_loops=True)
        seen = set()
        for ca in list(ex.return_callargs) + [e.get("#callargs", ()) for _, e in ex.cuts]:
            for c in ca:
                if not re.match(r"^Roff::control::<", c[0]) or c[1][1:] in seen:
                    continue
                seen.add(c[1][1:])
                n_calls += 1
                name, args = c[1][1], c[1][2] if len(c[1]) > 2 else ""
                if re.match(r'^array\((str:"[^"]*"(, ?)?)*\)$', args) or args in ("array()", ""):
                    ok = name.startswith('str:"')
                elif args.startswith("array("):
                    # every non-literal element goes through control_arg
                    elems = [args[6:-1]] if "[&str; 1]" in c[0] else split_top_level(args[6:-1])
                    ok = name.startswith('str:"') and all(e.startswith('str:"') or re.match(r"^(String::as_str\()?control_arg\(", e.strip()) for e in elems)
                else:
                    ok = name == 'str:"TH"' and "Man::title_args(self)" in args
                add(fn.name, f"{n.split('::')[-1]}: the arguments of `.{name[5:-1] if name.startswith('str:') else name}` are literals or pass through control_arg", ok)
        enc.append(_enc(fn, ex, len(seen)))
    # title_args maps every element through control_arg
    ta = [f.get() for n, f in fns.items() if n.endswith("::title_args")]
    ok = False
    if len(ta) == 1:
        text = ta[0].text
        m = re.search(r"as Iterator>::map::<String, (\{closure@clap_mangen/src/lib\.rs:[\d: ]+\})>", text)
        if m:
            try:
                cf = _closure_fn(fns, m.group(1))
                cex = symex.Exec(ctx, cf, [("opq", "ta_env"), ("opq", "ta_item")]).run()
                ok = len(cex.returns) == 1 and cex.returns[0][1][0] == "opq" and re.match(r"^control_arg\(", cex.returns[0][1][1]) is not None
            except Unsupported:
                ok = False
    add("title_args", "every `.TH` argument is mapped through control_arg", ok)
    # control_arg itself removes line breaks
    cafn = [f.get() for n, f in fns.items() if n == "control_arg" or n.endswith("::control_arg")]
    ok = False
    if len(cafn) == 1:
        t = cafn[0].text
        ok = "str>::replace::<[char; 2]>" in t.replace("core::str::<impl ", "").replace("impl ", "") or re.search(r"replace::<\[char; 2\]>", t) is not None
        ok = ok and ("'\\n'" in t and "'\\r'" in t)
    add("control_arg", "control_arg replaces '\\n' and '\\r' (str::replace with both characters)", ok)
    if n_calls == 0:
        add("clap_mangen", "no Roff::control call found in the section renderers", False)
    return ctx, obs, enc, con


spec_mangen_control_args.crate = "clap_mangen"
SPECS["C19"].append(spec_mangen_control_args)


# ------------------------------------------------------------------ C04: `value_parser(<range>)` keeps the range's own bounds

def spec_range_sugar(fns, consts):
    """`impl From<Range*<i64>> for ValueParser` (the `value_parser(lo..hi)` sugar): each of the six impls
    hands RangedI64ValueParser::range a range of the SAME kind as its input (so an inclusive end stays
    inclusive, an exclusive one exclusive) whose bounds are the input's own fields, and wraps that parser."""
    con = contracts.Contracts(fns, default_pure=True)
    ctx = symex.Ctx(consts, con)
    obs, enc = [], []
    impls = [(n, f) for n, f in fns.items() if re.match(r"^value_parser::<impl at clap_builder/src/builder/value_parser\.rs:[\d: ]+>::from$", n)]
    kinds = {}
    for n, f in impls:
        fn = f.get()
        if len(fn.params) != 1 or "ValueParser" not in fn.ret or "Ranged" in fn.ret:
            continue
        m = re.match(r"^(?:std::ops::)?(Range\w*)(?:<i64>)?$", fn.params[0][1].strip())
        if not m:
            continue
        kind = m.group(1)
        kinds[kind] = fn
        ex = symex.Exec(ctx, fn, [("opq", "value")]).run()
        ok = False
        for (pc, val), ca in zip(ex.returns, ex.return_callargs):
            rc = [c for c in ca if re.match(r"^RangedI64ValueParser::range::<", c[0])]
            if len(rc) != 1:
                continue
            got = re.match(r"^RangedI64ValueParser::range::<(?:std::ops::)?(Range\w*)", rc[0][0]).group(1)
            arg = rc[0][1][1]
            fields = set(re.findall(r"value(?:\.(\d))?", arg))
            # (a struct aggregate's key does not carry its fields: read them from the MIR text - every bound is fed from the input)
            uses_input = ("value" in arg or arg.startswith("aggr:")) and not re.search(r"(start|end): const", fn.text) and "const" not in arg
            ok = got == kind and (kind == "RangeFull" or uses_input) and any(c[0].endswith("as From<RangedI64ValueParser>>::from") and rc[0][2] in c[1][0] for c in ca)
        obs.append({"fn": fn.name, "block": "ret", "kind": "spec", "target": "range_sugar",
                    "msg": f"value_parser({kind}<i64>) builds the parser from a {kind} with the input's own bounds", "pc": [], "neg": "false" if ok else "true"})
        enc.append(_enc(fn, ex, len(ex.returns)))
    missing = {"Range", "RangeInclusive", "RangeFrom", "RangeTo", "RangeToInclusive", "RangeFull"} - set(kinds)
    if missing:
        obs.append({"fn": "value_parser.rs", "block": "shape", "kind": "spec", "target": "range_sugar", "msg": "From<range> impls not found: " + ", ".join(sorted(missing)), "pc": [], "neg": "true"})
    return ctx, obs, enc, con


SPECS["C04"].append(spec_range_sugar)


# ------------------------------------------------------------------ C20: wrapping only trims the END of the text

def spec_styled_wrap_trim(fns, consts):
    """StyledStr::wrap (feature wrap_help), every return path: the rebuilt text is trimmed at its END only
    (`str::trim_end`), never at the start - leading blank lines and the first line's indent are part of
    the author's text; words are taken from find_words_ascii_space and go through LineWrapper::wrap."""
    con = contracts.Contracts(fns, default_pure=True)
    ctx = symex.Ctx(consts, con)
    c = [f for n, f in fns.items() if n.endswith("::wrap") and "styled_str.rs" in n]
    if len(c) != 1:
        raise Unsupported(f"StyledStr::wrap (wrap_help) not found exactly once ({len(c)})")
    fn = c[0].get()
    ex = symex.Exec(ctx, fn, [("opq", "self"), ("bv", ctx.sym("hard_width", "(_ BitVec 64)"), 64)])
    ex.run(havoc_unassigned=True, cut_loops=True)
    obs = []
    for (pc, val), ca in zip(ex.returns, ex.return_callargs):
        cn = [x[0] for x in ca]
        trims = [x for x in cn if re.search(r"core::str::<impl str>::trim(_\w+)?$", x)]
        ok = trims == ["core::str::<impl str>::trim_end"]
        obs.append({"fn": fn.name, "block": "ret", "kind": "spec", "target": "styled_wrap_trim", "msg": "the wrapped text is trimmed at its end only (trim_end, once)" + ("" if ok else f" - found {[t.split('::')[-1] for t in trims]}"),
                    "pc": list(pc), "neg": "false" if ok else "true"})
    loop_calls = {x[0] for _, env in ex.cuts for x in env.get("#callargs", ())}
    ok = any(x.endswith("find_words_ascii_space") for x in loop_calls) and any(re.search(r"LineWrapper::<'_>::wrap$|LineWrapper::wrap$", x) for x in loop_calls)
    obs.append({"fn": fn.name, "block": "loop", "kind": "spec", "target": "styled_wrap_trim", "msg": "every line's words come from find_words_ascii_space and go through LineWrapper::wrap", "pc": [], "neg": "false" if ok else "true"})
    return ctx, obs, [_enc(fn, ex, len(ex.returns))], con


SPECS["C20"].append(spec_styled_wrap_trim)


# ------------------------------------------------------------------ C06/C01: error-ignoring recovery covers every command-line phase

def spec_ignore_errors_recovery(fns, consts):
    """Parser::get_matches_with: under ignore_errors an error raised while the command line is processed -
    by `parse` OR by the final `resolve_pending` (the last option's values are validated there) - goes
    through the recovery closure that still applies the environment and the defaults, so that the
    matches handed back carry every argument's default: on every path, the result of resolve_pending
    reaches the same `map_err(recovery)` as the result of parse before it can be returned as an error."""
    con = contracts.Contracts(fns, default_pure=True)
    ctx = symex.Ctx(consts, con)
    fn = _find(fns, "parser/parser.rs", "get_matches_with")
    ex = symex.Exec(ctx, fn, [("opq", "self"), ("opq", "matcher"), ("opq", "raw_args"), ("opq", "cursor")]).run()
    obs = []
    n = 0
    for (pc, val), ca in zip(ex.returns, ex.return_callargs):
        cn = [c[0] for c in ca]
        rp = [c for c in ca if c[0].endswith("::resolve_pending")]
        if not rp:
            continue
        n += 1
        maps = [c for c in ca if re.search(r"^(std::result::)?Result::<.*>::map_err::<.*\{closure@clap_builder/src/parser/parser\.rs", c[0])]
        ok = any(rp[0][2] == c[1][0] or rp[0][2] in c[1][0] for c in maps)
        obs.append({"fn": fn.name, "block": "ret", "kind": "spec", "target": "ignore_errors_recovery",
                    "msg": "an error of resolve_pending goes through the error-ignoring recovery (env, defaults) like an error of parse", "pc": list(pc), "neg": "false" if ok else "true"})
    if n == 0:
        obs.append({"fn": fn.name, "block": "shape", "kind": "spec", "target": "ignore_errors_recovery", "msg": "get_matches_with: no path calls resolve_pending", "pc": [], "neg": "true"})
    return ctx, obs, [_enc(fn, ex, n)], con


SPECS["C06"].append(spec_ignore_errors_recovery)
SPECS["C01"].append(spec_ignore_errors_recovery)

SPECS["C01"].append(spec_parse_subcommand)        # error-ignoring: an explicit help / version request is still reported


# ------------------------------------------------------------------ C03/C10: a conditional requirement is judged by the argument that declares it

def spec_requires_owner(fns, consts):
    """Command::unroll_arg_requires walks the `requires` lists of an argument AND of every argument it
    transitively requires, asking a caller-supplied predicate whether each (condition, id) entry is
    relevant.  A condition `Equals(v)` is about the value of the argument that DECLARES the entry, so
    (a) in one pass of the walk the predicate handed to `filter_map` must carry the id popped from the
    work list (the declaring argument) - a bare `&func` cannot know whose entry it judges; (b) the
    closures built by Validator::gather_requires and Usage for that walk must evaluate `check_explicit`
    through the matcher *for the id they are handed*, not on a MatchedArg / id captured from outside."""
    con = contracts.Contracts(fns, default_pure=True)
    ctx = symex.Ctx(consts, con)
    fn = _find(fns, "builder/command.rs", "unroll_arg_requires")
    ex = symex.Exec(ctx, fn, [("opq", "self"), ("opq", "func"), ("opq", "arg")])
    ex.run(havoc_unassigned=True, cut_loops=True)
    obs, n = [], 0
    for pc, env in ex.cuts:
        for c in env.get("#callargs", ()):
            if not re.search(r"as Iterator>::filter_map::<", c[0]):
                continue
            n += 1
            m = re.search(r"find\(self,(.*?@Some\.0)\)@Some\.0", c[1][0])
            owner = m.group(1) if m else None
            pred = c[1][1]
            caps = re.findall(r"(?:copy|move) (_\d+)", pred) if pred.startswith("closure:") else []
            vals = [env.get(l) for l in caps]
            ok = owner is not None and any(v is not None and v[0] == "opq" and v[1] == owner for v in vals)
            obs.append({"fn": fn.name, "block": "loop", "kind": "spec", "target": "requires_owner",
                        "msg": "the relevance predicate applied to an argument's `requires` entries is given that argument's id (the one popped from the work list)" + ("" if ok else f" - predicate is `{pred[:80]}`"),
                        "pc": list(pc), "neg": "false" if ok else "true"})
    if n == 0:
        obs.append({"fn": fn.name, "block": "shape", "kind": "spec", "target": "requires_owner", "msg": "unroll_arg_requires: no pass of the walk filters a `requires` list", "pc": [], "neg": "true"})
    encs = [_enc(fn, ex, len(ex.cuts) + len(ex.returns))]
    # (b) the callers' closures
    callers = 0
    for name, f in fns.items():
        if not re.search(r"(parser/validator\.rs.*gather_requires|output/usage\.rs.*)::\{closure#\d+\}$", name):
            continue
        if "{closure#" not in name.rsplit("::", 1)[-1] or name.count("{closure#") != 1:
            continue
        body = f.get()
        ptypes = [str(t) for _, t in body.params]
        if not any("(ArgPredicate, Id)" in t for t in ptypes):
            continue
        if not any("check_explicit" in str(b) for b in (body.text if isinstance(body.text, list) else [body.text])):
            continue
        callers += 1
        nparams = len(body.params)
        args = [("opq", "env")] + [("opq", f"p{i}") for i in range(1, nparams)]
        e2 = symex.Exec(ctx, body, args).run()
        for (pc, val), ca in zip(e2.returns, e2.return_callargs):
            for c in ca:
                if not c[0].endswith("::check_explicit"):
                    continue
                ok = c[0].endswith("ArgMatcher::check_explicit") and nparams >= 3 and len(c[1]) == 3 and c[1][1] == "p1"
                obs.append({"fn": body.name, "block": "ret", "kind": "spec", "target": "requires_owner",
                            "msg": "a value condition is checked through the matcher for the id the closure is handed" + ("" if ok else f" - found {c[0].split('::')[-2]}::check_explicit({', '.join(a[:30] for a in c[1])})"),
                            "pc": list(pc), "neg": "false" if ok else "true"})
        encs.append(_enc(body, e2, len(e2.returns)))
    if callers == 0:
        obs.append({"fn": "validator.rs/usage.rs", "block": "shape", "kind": "spec", "target": "requires_owner", "msg": "no caller closure of unroll_arg_requires evaluates check_explicit", "pc": [], "neg": "true"})
    return ctx, obs, encs, con


SPECS["C03"].append(spec_requires_owner)
SPECS["C10"].append(spec_requires_owner)


SPECS["C10"].append(spec_range_sugar)   # a value inside the declared range must not be rejected (C10: rejections are justified)


# ------------------------------------------------------------------ C12: the expanded `help` subtree keeps each subcommand's hidden flag

def spec_help_subtree_copy(fns, consts):
    """Command::_copy_subtree_for_help (the tree under the generated `help` subcommand after build()):
    on every return path the copy carries `hide(self.is_hide_set())` - the original's own flag - and its
    children are the copies of ALL of the original's subcommands (get_subcommands mapped through this
    very function, no filter in between), so a hidden subcommand stays hidden at every level instead of
    being dropped at one call site and copied as visible at the other."""
    con = contracts.Contracts(fns, default_pure=True)
    ctx = symex.Ctx(consts, con)
    fn = _find(fns, "builder/command.rs", "_copy_subtree_for_help")
    ex = symex.Exec(ctx, fn, [("opq", "self")]).run()
    obs = []
    for (pc, val), ca in zip(ex.returns, ex.return_callargs):
        hides = [c for c in ca if c[0].endswith("Command::hide")]
        ok1 = len(hides) == 1 and hides[0][1][-1] == "command::Command::is_hide_set(self)"
        subs = [c for c in ca if re.search(r"Command::subcommands::<", c[0])]
        ok2 = len(subs) == 1 and re.search(r"^<std::slice::Iter<'_, command::Command> as Iterator>::map::<.*\(command::Command::get_subcommands\(self\),fnitem:command::Command::_copy_subtree_for_help\)$", subs[0][1][-1]) is not None
        ok3 = not any(re.search(r"as Iterator>::(filter|skip|take|filter_map)\b", c[0]) for c in ca)
        for msg, ok in (("the copy carries the original's own hidden flag: hide(self.is_hide_set())", ok1),
                        ("the copy's children are the copies of all of the original's subcommands", ok2 and ok3)):
            obs.append({"fn": fn.name, "block": "ret", "kind": "spec", "target": "help_subtree_copy", "msg": msg, "pc": list(pc), "neg": "false" if ok else "true"})
    if not ex.returns:
        obs.append({"fn": fn.name, "block": "shape", "kind": "spec", "target": "help_subtree_copy", "msg": "_copy_subtree_for_help: no return path", "pc": [], "neg": "true"})
    return ctx, obs, [_enc(fn, ex, len(ex.returns))], con


SPECS["C12"].append(spec_help_subtree_copy)


# ------------------------------------------------------------------ C06: the environment value is read as an OS string

def spec_env_read(fns, consts):
    """Arg::env: whenever a variable name is given, its value is read with std::env::var_os - any byte
    sequence the OS holds, so 'set' means set - and never with std::env::var, for which a value that is
    not UTF-8 looks like an unset variable (the default would then win and the source would lie)."""
    con = contracts.Contracts(fns, default_pure=True)
    ctx = symex.Ctx(consts, con)
    fn = _find(fns, "builder/arg.rs", "env")
    ex = symex.Exec(ctx, fn, [("opq", "self"), ("opq", "name")]).run()
    obs, reads = [], 0
    for (pc, val), ca in zip(ex.returns, ex.return_callargs):
        rd = [c[0] for c in ca if re.search(r"(^|::)(var|var_os|vars|vars_os)::<|(^|::)(var|var_os)$", c[0])]
        if not rd:
            continue
        reads += 1
        ok = all(re.search(r"(^|::)var_os(::<|$)", r) for r in rd)
        obs.append({"fn": fn.name, "block": "ret", "kind": "spec", "target": "env_read", "msg": "the variable is read as an OS string (env::var_os)" + ("" if ok else f" - found {rd}"), "pc": list(pc), "neg": "false" if ok else "true"})
    if reads == 0:
        obs.append({"fn": fn.name, "block": "shape", "kind": "spec", "target": "env_read", "msg": "Arg::env: no path reads the environment", "pc": [], "neg": "true"})
    return ctx, obs, [_enc(fn, ex, len(ex.returns))], con


SPECS["C06"].append(spec_env_read)


# ------------------------------------------------------------------ C06: a conditional default is triggered only by an argument that was really used

def spec_conditional_default_explicit(fns, consts):
    """Parser::add_default_value, one pass of the loop over `default_value_if` entries and every return
    path: a conditional default is handed to react only if the argument the condition names was
    EXPLICITLY present (command line or environment) - `MatchedArg::check_explicit(<that argument's
    matches>, &IsPresent)` holds on the path.  A value the other argument only has by its own default
    must not count as "used" (it would also make the result depend on definition order, because
    defaults are applied in that order)."""
    con = contracts.Contracts(fns, default_pure=True)
    ctx = symex.Ctx(consts, con)
    fn = _find(fns, "parser/parser.rs", "add_default_value")
    ex = symex.Exec(ctx, fn, [("opq", "self"), ("opq", "arg"), ("opq", "matcher")])
    ex.run(havoc_unassigned=True, cut_loops=True)
    paths = [(pc, ca) for (pc, _), ca in zip(ex.returns, ex.return_callargs)] + [(pc, env.get("#callargs", ())) for pc, env in ex.cuts]
    obs, n = [], 0
    for pc, ca in paths:
        gets = [c for c in ca if c[0] == "ArgMatcher::get"]
        reacts = [c for c in ca if c[0].endswith("::react")]
        if not gets or not reacts:
            continue
        n += 1
        other = gets[-1][2] + "@Some.0"
        chk = [c for c in ca if c[0] == "MatchedArg::check_explicit" and c[1][0] == other and c[1][1].startswith("const:")]
        sym = ctx.keys.get(chk[0][2]) if chk else None
        obs.append({"fn": fn.name, "block": "call", "kind": "spec", "target": "conditional_default_explicit",
                    "msg": "a conditional default is applied only when the argument its condition names is explicitly present (not merely defaulted)" + ("" if sym else " - its explicit-ness is never consulted"),
                    "pc": list(pc), "neg": f"(not {sym})" if sym else "true"})
    if n == 0:
        obs.append({"fn": fn.name, "block": "shape", "kind": "spec", "target": "conditional_default_explicit", "msg": "add_default_value: no path applies a conditional default", "pc": [], "neg": "true"})
    return ctx, obs, [_enc(fn, ex, len(paths))], con


SPECS["C06"].append(spec_conditional_default_explicit)


# ------------------------------------------------------------------ C09/C08: a flag subcommand is recognised by its flag OR by any of its flag aliases

def spec_flag_subcommand_aliases_to(fns, consts):
    """Command::long_flag_aliases_to / short_flag_aliases_to (how Parser finds a flag subcommand): on every
    return path the answer is `true` because the primary flag equals the token, or it is exactly the result
    of `any(alias == token)` over get_all_{long,short}_flag_aliases(self) - in particular when there is NO
    primary flag the aliases alone decide (an alias-only flag subcommand is dispatched)."""
    con = contracts.Contracts(fns, default_pure=True)
    ctx = symex.Ctx(consts, con)
    obs, encs = [], []
    for name, getter in (("long_flag_aliases_to", "get_all_long_flag_aliases"), ("short_flag_aliases_to", "get_all_short_flag_aliases")):
        fn = _find(fns, "builder/command.rs", name)
        ex = symex.Exec(ctx, fn, [("opq", "self"), ("opq", "flag")]).run()
        for (pc, val), ca in zip(ex.returns, ex.return_callargs):
            anys = [ctx.keys.get(c[2]) for c in ca if re.search(r"as Iterator>::any::<", c[0]) and c[1][0] == f"command::Command::{getter}(self)"]
            eqs = [ctx.keys.get(c[2]) for c in ca if re.search(r"PartialEq(<.*>)?>::eq$", c[0])]
            if val[0] == "bool" and val[1] == "true":
                neg = f"(not (or {' '.join(eqs)} false))" if eqs else "true"
                msg = f"{name}: `true` without consulting the aliases only when the primary flag equals the token"
            elif val[0] == "bool" and anys and val[1] == anys[-1]:
                neg, msg = "false", f"{name}: otherwise the aliases decide (any alias equals the token)"
            else:
                neg, msg = "true", f"{name}: otherwise the aliases decide (any alias equals the token) - this path returns `{val[1][:60]}` without that"
            obs.append({"fn": fn.name, "block": "ret", "kind": "spec", "target": "flag_subcommand_aliases_to", "msg": msg, "pc": list(pc), "neg": neg})
        encs.append(_enc(fn, ex, len(ex.returns)))
    return ctx, obs, encs, con


SPECS["C09"].append(spec_flag_subcommand_aliases_to)
SPECS["C08"].append(spec_flag_subcommand_aliases_to)
