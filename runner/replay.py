"""Replay a Kani counterexample natively against the real crate before reporting it.

Kani's concrete playback turns the SAT model into a #[test] that feeds the same bytes to
kani::any(); `cargo kani playback` compiles that test with ordinary rustc (dev profile,
and --release) and runs it against the real clap sources.  Only a test that FAILS
natively (panic / failed assert) counts as a reproduced violation.
"""
import os
import re
import shutil
import subprocess
import time

import kani

VERIF = kani.VERIF


def _run(cmd, cwd, env, log, timeout):
    with open(log, "a") as f:
        f.write("\n# " + " ".join(cmd) + "\n")
        f.flush()
        try:
            p = subprocess.run(cmd, cwd=cwd, env=env, stdout=f, stderr=subprocess.STDOUT, timeout=timeout)
            return p.returncode
        except subprocess.TimeoutExpired:
            f.write("\n# TIMEOUT\n")
            return 124


def replay(pid, h, r):
    crate = h["crate"]
    short = r["short"]
    work = os.path.join(kani.SCRATCH, "replay", short)
    shutil.rmtree(work, ignore_errors=True)
    os.makedirs(work)
    out_dir = os.path.join(os.environ.get("VERIF_REPLAY_DIR", os.path.join(VERIF, "replays")), pid)
    os.makedirs(out_dir, exist_ok=True)
    out_path = os.path.join(out_dir, short + ".rs")
    log = os.path.join(work, "replay.log")
    env = kani.base_env()
    env.update(kani.CRATES[crate]["env"])
    tdir = os.path.join(work, "target")
    res = {"reproduced": False, "path": out_path, "note": ""}
    t0 = time.time()
    try:
        if crate == "lex":
            src = os.path.join(work, "crate")
            shutil.copytree(kani.CRATES[crate]["cwd"], src)
            cwd = src
            harness_files = [os.path.join(src, "src", f) for f in os.listdir(os.path.join(src, "src"))]
        else:
            # in-crate harnesses: copy /verif/harness so that `inplace` edits the copy, never /verif or /repo
            hdir = os.path.join(work, "harness")
            shutil.copytree(kani.CRATES[crate]["env"]["CLAP_VERIF_DIR"], hdir)
            env["CLAP_VERIF_DIR"] = hdir
            cwd = kani.CRATES[crate]["cwd"]
            harness_files = [os.path.join(hdir, f) for f in os.listdir(hdir)]
        cmd = ["cargo", "kani"] + kani.CRATES[crate]["args"] + ["--harness", h["name"], "--exact", "--target-dir", tdir,
                                                                 "-Z", "concrete-playback", "--concrete-playback=print"]
        if h.get("stubs"):
            cmd += ["-Z", "stubbing"]
        _run(cmd, cwd, env, log, h["budget_s"] * 3)
        out = open(log, errors="replace").read()
        # Kani prints one test per failed check AND per satisfied cover; keep the failed checks only
        tests = []
        for m in re.finditer(r"```\n(/// Test generated for harness[^\n]*\n///\s*\n/// Check for `(\w+)`: \"(.*)\"\n\n(#\[test\]\nfn (kani_concrete_playback_\w+)\(\)[\s\S]*?\n}\n))```", out):
            whole, kind, desc, test_src, test_name = m.groups()
            if kind != "cover":
                tests.append((test_name, whole, desc))
        if not tests:
            res["note"] = "Kani produced no concrete playback test for a failed check (see %s.log)" % out_path
            _save(out_path, h, r, "// no playback test was produced\n", res)
            _save_log_tail(log, out_path + ".log")
            return res
        tests = tests[:4]
        mod_file = _module_file(crate, h["name"], harness_files)
        with open(mod_file, "a") as f:
            f.write("\n// ---- appended by the replay step ----\n")
            for _, whole, _ in tests:
                f.write(whole + "\n")
        env2 = dict(env)
        env2["CARGO_TARGET_DIR"] = os.path.join(work, "target-native")
        modes = {}
        test_src = "\n".join(w for _, w, _ in tests)
        for mode, extra_env in (("dev", {}), ("release-like", {"CARGO_PROFILE_TEST_OPT_LEVEL": "3", "CARGO_PROFILE_TEST_DEBUG_ASSERTIONS": "false",
                                                                "CARGO_PROFILE_TEST_OVERFLOW_CHECKS": "false"})):
            env3 = dict(env2)
            env3.update(extra_env)
            env3["CARGO_TARGET_DIR"] = env2["CARGO_TARGET_DIR"] + "-" + mode
            verdicts = []
            for test_name, _, _ in tests:
                cmd = ["cargo", "kani", "playback", "-Z", "concrete-playback"] + kani.CRATES[crate]["args"] + ["--", test_name]
                mark = os.path.getsize(log)
                rc = _run(cmd, cwd, env3, log, 1800)
                with open(log, errors="replace") as lf:
                    lf.seek(mark)
                    tail = lf.read()
                ran = re.search(r"running 1 test", tail) is not None
                failed = ran and re.search(r"test result: FAILED", tail) is not None
                verdicts.append("panicked" if failed else ("passed" if ran and rc == 0 else f"not run (rc={rc})"))
            modes[mode] = verdicts
        res["modes"] = modes
        res["reproduced"] = any(v == "panicked" for vs in modes.values() for v in vs)
        if not res["reproduced"]:
            res["note"] = f"playback test did not fail natively: {modes}"
        _save(out_path, h, r, test_src, res)
        _save_log_tail(log, out_path + ".log")
    finally:
        res["wall_s"] = round(time.time() - t0, 1)
        shutil.rmtree(work, ignore_errors=True)
    return res


def _save(path, h, r, test_src, res):
    with open(path, "w") as f:
        f.write("// Counterexample found by Kani for harness %s\n" % h["name"])
        f.write("// bound: %s\n" % h["bound"])
        for fc in r["failed"][:8]:
            f.write("// failed check: %s @ %s\n" % (fc["desc"], fc["loc"]))
        f.write("// native replay: %s\n" % res.get("modes", res.get("note")))
        f.write("// to re-run: paste this test next to the harness (it is what `--concrete-playback=inplace` adds)\n")
        f.write("// and run: cargo kani playback -Z concrete-playback -- <test name>\n\n")
        f.write(test_src)


def _module_file(crate, name, harness_files):
    """File that defines the module the harness lives in (c13::x -> src/c13.rs; verif_harness::c04::x -> c04.rs)."""
    parts = name.split("::")
    mod = parts[-2] if len(parts) >= 2 else None
    for p in harness_files:
        if mod and os.path.basename(p) == mod + ".rs":
            return p
    short = parts[-1]
    for p in harness_files:
        if p.endswith(".rs") and re.search(r"\b%s\b" % re.escape(short), open(p).read()):
            return p
    raise RuntimeError("no module file for " + name)


def _save_log_tail(log, dest):
    """Keep only what documents the native run (the Kani re-run is reproducible from the command)."""
    lines = open(log, errors="replace").read().splitlines()
    keep = [l for l in lines if re.match(r"^(# |running |test |thread |failures:|    c\d|error)", l) or "panicked at" in l or "VERIFICATION" in l]
    with open(dest, "w") as f:
        f.write("\n".join(keep[-120:]) + "\n")
