"""Replay a Kani counterexample natively against the real crate before reporting it.

Kani's concrete playback turns the SAT model into a #[test] that feeds the same bytes to
kani::any(); `cargo kani playback` compiles that test with ordinary rustc (dev profile,
and --release) and runs it against the real clap sources.  Only a test that FAILS
natively (panic / failed assert) counts as a reproduced violation.
"""
import os
import re
import shutil
import subprocess
import time

import kani

VERIF = kani.VERIF


def _run(cmd, cwd, env, log, timeout, mem_gb=12):
    """run under a memory cap and a wall-clock cap; the whole process group is killed on expiry
    (a playback CBMC was seen at 29 GB after 12 min without this)"""
    import signal
    shell = "ulimit -v %d; exec %s" % (int(mem_gb * 1024 * 1024), " ".join(subprocess.list2cmdline([c]) for c in cmd))
    with open(log, "a") as f:
        f.write("\n# " + " ".join(cmd) + "\n")
        f.flush()
        p = subprocess.Popen(["bash", "-c", shell], cwd=cwd, env=env, stdout=f, stderr=subprocess.STDOUT, start_new_session=True)
        try:
            return p.wait(timeout=timeout)
        except subprocess.TimeoutExpired:
            try:
                os.killpg(p.pid, signal.SIGKILL)
            except ProcessLookupError:
                pass
            p.wait()
            f.write("\n# TIMEOUT after %ds\n" % timeout)
            return 124


def replay(pid, h, r):
    if h.get("slots"):
        res = native_search(pid, h, r)
        if res["reproduced"] or not h.get("kani_playback_fallback"):
            return res
    return kani_playback(pid, h, r)


def _le(v, n):
    return list((v % (1 << (8 * n))).to_bytes(n, "little"))


def native_search(pid, h, r):
    """For harnesses whose Kani concrete playback is unaffordable (measured: > 1 h and 15 GB for the
    ranged-parser harnesses): run the SAME harness function natively (kani::concrete_playback_run feeds
    kani::any()) over the product of small per-input candidate sets declared in the registry
    (boundary values around the harness' constants).  The first candidate on which the real code
    makes a harness assertion fail is the witness.  Candidates violating a kani::assume are skipped."""
    import itertools
    crate, short = h["crate"], r["short"]
    work = os.path.join(kani.SCRATCH, "replay", short + "-native")
    shutil.rmtree(work, ignore_errors=True)
    os.makedirs(work)
    out_dir = os.path.join(os.environ.get("VERIF_REPLAY_DIR", os.path.join(VERIF, "replays")), pid)
    os.makedirs(out_dir, exist_ok=True)
    out_path = os.path.join(out_dir, short + ".rs")
    log = os.path.join(work, "replay.log")
    env = kani.base_env()
    env.update(kani.CRATES[crate]["env"])
    res = {"reproduced": False, "path": out_path, "note": ""}
    t0 = time.time()
    try:
        if crate == "lex":
            src = os.path.join(work, "crate")
            shutil.copytree(kani.CRATES[crate]["cwd"], src)
            cwd = src
            harness_files = [os.path.join(src, "src", f) for f in os.listdir(os.path.join(src, "src"))]
        else:
            hdir = os.path.join(work, "harness")
            shutil.copytree(kani.CRATES[crate]["env"]["CLAP_VERIF_DIR"], hdir)
            env["CLAP_VERIF_DIR"] = hdir
            cwd = kani.CRATES[crate]["cwd"]
            harness_files = [os.path.join(hdir, f) for f in os.listdir(hdir)]
        combos = list(itertools.islice(itertools.product(*[c for _, c in h["slots"]]), 20000))
        rows = []
        for combo in combos:
            rows.append("vec![" + ", ".join("vec!%s" % _le(v, n) for (n, _), v in zip(h["slots"], combo)) + "]")
        test_name = "verif_native_search_" + short
        test_src = """
#[test]
fn %s() {
    let cands: Vec<Vec<Vec<u8>>> = vec![
        %s
    ];
    std::panic::set_hook(Box::new(|_| {}));
    let mut found = None;
    let mut tried = 0usize;
    for c in cands.iter() {
        let r = std::panic::catch_unwind(std::panic::AssertUnwindSafe(|| kani::concrete_playback_run(c.clone(), %s)));
        if let Err(e) = r {
            let msg = e.downcast_ref::<String>().cloned().or_else(|| e.downcast_ref::<&str>().map(|s| s.to_string())).unwrap_or_default();
            if msg.contains("kani::assume") {
                continue;
            }
            tried += 1;
            found = Some((c.clone(), msg));
            break;
        }
        tried += 1;
    }
    let _ = std::panic::take_hook();
    match found {
        Some((c, msg)) => {
            println!("VERIF-WITNESS inputs={:?} panic={}", c, msg.replace('\\n', " "));
            panic!("witness found");
        }
        None => println!("VERIF-NO-WITNESS after {} admissible candidates", tried),
    }
}
""" % (test_name, ",\n        ".join(rows), short)
        mod_file = _module_file(crate, h["name"], harness_files)
        with open(mod_file, "a") as f:
            f.write("\n// ---- appended by the replay step (native witness search) ----\n" + test_src)
        modes = {}
        witness = None
        for mode, extra_env in (("dev", {}), ("release-like", {"CARGO_PROFILE_TEST_OPT_LEVEL": "3", "CARGO_PROFILE_TEST_DEBUG_ASSERTIONS": "false",
                                                                "CARGO_PROFILE_TEST_OVERFLOW_CHECKS": "false"})):
            env3 = dict(env)
            env3.update(extra_env)
            env3["CARGO_TARGET_DIR"] = os.path.join(work, "target-native-" + mode)
            cmd = ["cargo", "kani", "playback", "-Z", "concrete-playback"] + kani.CRATES[crate]["args"] + ["--", test_name, "--nocapture"]
            mark = os.path.getsize(log) if os.path.exists(log) else 0
            _run(cmd, cwd, env3, log, 1800, mem_gb=24)
            with open(log, errors="replace") as lf:
                lf.seek(mark)
                tail = lf.read()
            m = re.search(r"VERIF-WITNESS (.*)", tail)
            if m:
                modes[mode] = "witness: " + m.group(1)[:400]
                witness = witness or m.group(1)
            elif "VERIF-NO-WITNESS" in tail:
                modes[mode] = re.search(r"VERIF-NO-WITNESS.*", tail).group(0)
            else:
                modes[mode] = "native search did not run"
        res["modes"] = modes
        res["reproduced"] = witness is not None
        if not witness:
            res["note"] = f"no native witness among {len(combos)} boundary candidates: {modes}"
        if witness:
            wm = re.search(r"inputs=(\[\[.*?\]\]) panic=", witness)
            if wm:
                one = "vec![" + ", ".join("vec!" + part for part in re.findall(r"\[[\d, ]*\]", wm.group(1)[1:-1])) + "]"
                test_src = test_src.replace(",\n        ".join(rows), one)
        hdr = ("// Native witness search for harness %s (Kani concrete playback is unaffordable for it).\n"
               "// The harness function itself is run natively over %d boundary candidates; kani::any() is fed by kani::concrete_playback_run.\n"
               "// result: %s\n" % (h["name"], len(combos), modes))
        _save(out_path, h, r, hdr + (test_src if len(test_src) < 20000 else test_src[:20000] + "\n// ... (candidate table truncated)\n"), res)
        _save_log_tail(log, out_path + ".log")
    finally:
        res["wall_s"] = round(time.time() - t0, 1)
        shutil.rmtree(work, ignore_errors=True)
    return res


def kani_playback(pid, h, r):
    crate = h["crate"]
    short = r["short"]
    work = os.path.join(kani.SCRATCH, "replay", short)
    shutil.rmtree(work, ignore_errors=True)
    os.makedirs(work)
    out_dir = os.path.join(os.environ.get("VERIF_REPLAY_DIR", os.path.join(VERIF, "replays")), pid)
    os.makedirs(out_dir, exist_ok=True)
    out_path = os.path.join(out_dir, short + ".rs")
    log = os.path.join(work, "replay.log")
    env = kani.base_env()
    env.update(kani.CRATES[crate]["env"])
    tdir = os.path.join(work, "target")
    res = {"reproduced": False, "path": out_path, "note": ""}
    t0 = time.time()
    try:
        if crate == "lex":
            src = os.path.join(work, "crate")
            shutil.copytree(kani.CRATES[crate]["cwd"], src)
            cwd = src
            harness_files = [os.path.join(src, "src", f) for f in os.listdir(os.path.join(src, "src"))]
        else:
            # in-crate harnesses: copy /verif/harness so that `inplace` edits the copy, never /verif or /repo
            hdir = os.path.join(work, "harness")
            shutil.copytree(kani.CRATES[crate]["env"]["CLAP_VERIF_DIR"], hdir)
            env["CLAP_VERIF_DIR"] = hdir
            cwd = kani.CRATES[crate]["cwd"]
            harness_files = [os.path.join(hdir, f) for f in os.listdir(hdir)]
        cmd = ["cargo", "kani"] + kani.CRATES[crate]["args"] + ["--harness", h["name"], "--exact", "--target-dir", tdir,
                                                                 "-Z", "concrete-playback", "--concrete-playback=print"]
        if h.get("stubs"):
            cmd += ["-Z", "stubbing"]
        _run(cmd, cwd, env, log, min(h["budget_s"] * 3, max(600, int(8 * (r.get("verify_s") or 60)))), mem_gb=h.get("mem_gb", 12))
        out = open(log, errors="replace").read()
        # Kani prints one test per failed check AND per satisfied cover; keep the failed checks only
        tests = []
        for m in re.finditer(r"```\n(/// Test generated for harness[^\n]*\n///\s*\n/// Check for `(\w+)`: \"(.*)\"\n\n(#\[test\]\nfn (kani_concrete_playback_\w+)\(\)[\s\S]*?\n}\n))```", out):
            whole, kind, desc, test_src, test_name = m.groups()
            if kind != "cover":
                tests.append((test_name, whole, desc))
        if not tests:
            res["note"] = "Kani produced no concrete playback test for a failed check (see %s.log)" % out_path
            _save(out_path, h, r, "// no playback test was produced\n", res)
            _save_log_tail(log, out_path + ".log")
            return res
        tests = tests[:4]
        mod_file = _module_file(crate, h["name"], harness_files)
        with open(mod_file, "a") as f:
            f.write("\n// ---- appended by the replay step ----\n")
            for _, whole, _ in tests:
                f.write(whole + "\n")
        env2 = dict(env)
        env2["CARGO_TARGET_DIR"] = os.path.join(work, "target-native")
        modes = {}
        test_src = "\n".join(w for _, w, _ in tests)
        for mode, extra_env in (("dev", {}), ("release-like", {"CARGO_PROFILE_TEST_OPT_LEVEL": "3", "CARGO_PROFILE_TEST_DEBUG_ASSERTIONS": "false",
                                                                "CARGO_PROFILE_TEST_OVERFLOW_CHECKS": "false"})):
            env3 = dict(env2)
            env3.update(extra_env)
            env3["CARGO_TARGET_DIR"] = env2["CARGO_TARGET_DIR"] + "-" + mode
            verdicts = []
            for test_name, _, _ in tests:
                cmd = ["cargo", "kani", "playback", "-Z", "concrete-playback"] + kani.CRATES[crate]["args"] + ["--", test_name]
                mark = os.path.getsize(log)
                rc = _run(cmd, cwd, env3, log, 1800, mem_gb=24)
                with open(log, errors="replace") as lf:
                    lf.seek(mark)
                    tail = lf.read()
                ran = re.search(r"running 1 test", tail) is not None
                failed = ran and re.search(r"test result: FAILED", tail) is not None
                verdicts.append("panicked" if failed else ("passed" if ran and rc == 0 else f"not run (rc={rc})"))
            modes[mode] = verdicts
        res["modes"] = modes
        res["reproduced"] = any(v == "panicked" for vs in modes.values() for v in vs)
        if not res["reproduced"]:
            res["note"] = f"playback test did not fail natively: {modes}"
        _save(out_path, h, r, test_src, res)
        _save_log_tail(log, out_path + ".log")
    finally:
        res["wall_s"] = round(time.time() - t0, 1)
        shutil.rmtree(work, ignore_errors=True)
    return res


def _save(path, h, r, test_src, res):
    with open(path, "w") as f:
        f.write("// Counterexample found by Kani for harness %s\n" % h["name"])
        f.write("// bound: %s\n" % h["bound"])
        for fc in r["failed"][:8]:
            f.write("// failed check: %s @ %s\n" % (fc["desc"], fc["loc"]))
        f.write("// native replay: %s\n" % res.get("modes", res.get("note")))
        f.write("// to re-run: paste this test next to the harness (it is what `--concrete-playback=inplace` adds)\n")
        f.write("// and run: cargo kani playback -Z concrete-playback -- <test name>\n\n")
        f.write(test_src)


def _module_file(crate, name, harness_files):
    """File that defines the module the harness lives in (c13::x -> src/c13.rs; verif_harness::c04::x -> c04.rs)."""
    parts = name.split("::")
    mod = parts[-2] if len(parts) >= 2 else None
    for p in harness_files:
        if mod and os.path.basename(p) == mod + ".rs":
            return p
    short = parts[-1]
    for p in harness_files:
        if p.endswith(".rs") and re.search(r"\b%s\b" % re.escape(short), open(p).read()):
            return p
    raise RuntimeError("no module file for " + name)


def _save_log_tail(log, dest):
    """Keep only what documents the native run (the Kani re-run is reproducible from the command)."""
    lines = open(log, errors="replace").read().splitlines()
    keep = [l for l in lines if re.match(r"^(# |running |test |thread |failures:|    c\d|error)", l) or "panicked at" in l or "VERIFICATION" in l]
    with open(dest, "w") as f:
        f.write("\n".join(keep[-120:]) + "\n")
