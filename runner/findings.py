"""known_findings.txt: committed, read-only at run time.

  finding: property=<id> harness=<short harness name> check=<substring of the failed check description or location> :: <what fails>
  fixed: property=<id> <commit> <what failed>          (suppresses nothing)
"""
import os
import re

PATH = os.path.join(os.path.dirname(os.path.dirname(os.path.abspath(__file__))), "known_findings.txt")


def load():
    out = []
    if not os.path.exists(PATH):
        return out
    for line in open(PATH):
        line = line.strip()
        if not line.startswith("finding:"):
            continue
        m = re.match(r"finding:\s+property=(\S+)\s+harness=(\S+)\s+check=(.+?)\s+::\s+(.*)$", line)
        if m:
            out.append({"pid": m.group(1), "harness": m.group(2), "check": m.group(3), "what": m.group(4)})
    return out


def match(known, pid, h, r):
    """A violation is a known finding only if EVERY failed check of the harness is covered by
    an entry for this property+harness; anything else is a new violation."""
    short = r["short"]
    entries = [k for k in known if k["pid"] == pid and k["harness"] == short]
    if not entries or not r["failed"]:
        return None
    for f in r["failed"]:
        if not any(k["check"] in f["desc"] or k["check"] in f["loc"] for k in entries):
            return None
    return entries[0]
