"""Which harnesses decide which property, in which tier.

tier: "quick" harnesses run in both tiers, "thorough" only in the thorough tier.
budget_s: per-harness wall-clock cap (>= 3x the measured time on the unchanged tree).
"""

LEX_FUNCS_C13 = [
    "clap_lex::RawArgs::new/next", "clap_lex::ParsedArg::{is_escape,is_stdio,is_long,is_short,is_empty,"
    "is_negative_number,to_long,to_short,to_value,to_value_os}",
    "clap_lex::ShortFlags::{new,next_flag,next_value_os,advance_by,is_empty,is_negative_number}",
    "clap_lex::split_nonutf8_once", "clap_lex::is_number", "clap_lex::ext::{split_at,strip_prefix,split_once,find,starts_with}",
]
LEX_FUNCS_C14 = [
    "clap_lex::OsStrExt::{find,contains,starts_with,strip_prefix,split_once,split}", "clap_lex::ext::Split::next",
    "clap_lex::RawArgs::{new,cursor,next_os,peek_os,is_end,seek,remaining,insert}",
]


def H(name, crate, props, tier, bound, funcs, budget_s=900, expect="pass", stubs=None, fail_desc=None, unwind=None, mem_gb=None):
    d = {"name": name, "crate": crate, "props": props, "tier": tier, "bound": bound, "funcs": funcs,
         "budget_s": budget_s, "expect": expect, "stubs": stubs or []}
    if fail_desc:
        d["fail_desc"] = fail_desc
    if mem_gb:
        d["mem_gb"] = mem_gb
    return d


HARNESSES = []


def lex13(name, tier, bound, props=("C13",), **kw):
    HARNESSES.append(H("c13::" + name, "lex", list(props), tier, bound, LEX_FUNCS_C13, **kw))


def lex14(name, tier, bound, props=("C14",), **kw):
    HARNESSES.append(H("c14::" + name, "lex", list(props), tier, bound, LEX_FUNCS_C14, **kw))


ALLB = "all 256 byte values at every position"
for L, tier in [(0, "quick"), (1, "quick"), (2, "quick"), (3, "quick"), (4, "thorough"), (5, "thorough")]:
    lex13(f"classify_{L}", tier, f"argument of exactly {L} bytes, {ALLB}")
for L, tier in [(3, "quick"), (4, "quick"), (5, "thorough"), (6, "thorough")]:
    lex13(f"long_{L}", tier, f"'--' + {L-2} bytes, {ALLB}", props=("C13", "C08"))
for L, tier in [(2, "quick"), (3, "quick"), (4, "thorough"), (5, "thorough")]:
    lex13(f"short_flags_{L}", tier, f"'-' + {L-1} bytes (second byte not '-'), {ALLB}; next_flag to exhaustion", props=("C13", "C08"))
for (L, K), tier in [((2, 0), "quick"), ((2, 1), "quick"), ((3, 0), "quick"), ((3, 1), "quick"), ((3, 2), "quick"),
                     ((4, 0), "thorough"), ((4, 1), "thorough"), ((4, 2), "thorough"), ((4, 3), "thorough"),
                     ((5, 1), "thorough"), ((5, 2), "thorough")]:
    lex13(f"short_value_{L}_{K}", tier, f"'-' + {L-1} bytes, {ALLB}; {K} next_flag calls then next_value_os", props=("C13", "C08"))
for (L, K), tier in [((3, 1), "quick"), ((3, 2), "quick"), ((4, 2), "thorough"), ((4, 3), "thorough")]:
    lex13(f"short_advance_{L}_{K}", tier, f"'-' + {L-1} bytes, {ALLB}; advance_by({K}) vs {K} next calls")
for L, tier in [(1, "quick"), (2, "quick"), (3, "quick"), (4, "thorough"), (5, "thorough")]:
    lex13(f"number_{L}", tier, f"argument of exactly {L} bytes, {ALLB}")
lex13("twin_c13_must_fail", "quick", "vacuity twin", expect="fail")

for (L, N), tier in [((0, 1), "quick"), ((1, 1), "quick"), ((2, 1), "quick"), ((3, 1), "quick"), ((4, 1), "quick"),
                     ((5, 1), "thorough"), ((1, 2), "quick"), ((2, 2), "quick"), ((3, 2), "quick"), ((4, 2), "thorough"),
                     ((5, 2), "thorough"), ((4, 3), "thorough")]:
    props = ("C14", "C08") if N == 1 else ("C14",)
    lex14(f"find_{L}_{N}", tier, f"haystack {L} bytes ({ALLB}), needle {N} bytes (any well-formed UTF-8)", props=props)
for (L, N), tier in [((0, 1), "quick"), ((1, 1), "quick"), ((2, 1), "quick"), ((3, 1), "quick"), ((4, 1), "thorough"),
                     ((2, 2), "quick"), ((3, 2), "thorough"), ((4, 2), "thorough")]:
    lex14(f"split_{L}_{N}", tier, f"haystack {L} bytes ({ALLB}), needle {N} bytes (any well-formed UTF-8); all pieces")
for K, tier in [(1, "quick"), (2, "quick"), (3, "quick"), (4, "thorough"), (5, "thorough")]:
    lex14(f"cursor_{K}", tier, f"3 items, {K} symbolic operations from next/peek/is_end/seek(Start|Current|End), offsets over all of u64/i64")
lex14("cur_step_read_seek", "quick", "arbitrary reachable cursor state (seek(Start(any u64)) + 0..2 next_os) then ONE read/seek op with any offset: inductive step")
lex14("cur_step_remaining", "quick", "arbitrary reachable cursor state then remaining(): inductive step")
lex14("cur_insert_0", "quick", "arbitrary reachable cursor state then an empty insert: inductive step")
for N, tier in ((1, "quick"), (2, "thorough")):
    for P, E in ((0, 0), (1, 0), (2, 0), (3, 0), (3, 1), (3, 2)):
        lex14(f"cur_insert_p{P}e{E}_n{N}", tier, f"CONCRETE index state seek(Start({P}))+{E} next_os (the 6 states cover every distinct index of a 3-item list), insert of {N} items, list read back; Vec::splice with a symbolic index exceeds 17 GB")
lex14("twin_c14_must_fail", "quick", "vacuity twin", expect="fail")
lex14("twin_cursor_must_fail", "quick", "vacuity twin", expect="fail")
lex14("twin_split_empty_needle_must_fail", "quick", "split(\"\") panics as documented", expect="fail",
      fail_desc="assertion failed: needle != ")


def for_property(pid, tier):
    out = []
    for h in HARNESSES:
        if pid in h["props"] and (tier == "thorough" or h["tier"] == "quick"):
            out.append(h)
    return out
