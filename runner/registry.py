"""Which harnesses decide which property, in which tier.

tier: "quick" harnesses run in both tiers, "thorough" only in the thorough tier.
budget_s: per-harness wall-clock cap (>= 3x the measured time on the unchanged tree).
"""

LEX_FUNCS_C13 = [
    "clap_lex::RawArgs::new/next", "clap_lex::ParsedArg::{is_escape,is_stdio,is_long,is_short,is_empty,"
    "is_negative_number,to_long,to_short,to_value,to_value_os}",
    "clap_lex::ShortFlags::{new,next_flag,next_value_os,advance_by,is_empty,is_negative_number}",
    "clap_lex::split_nonutf8_once", "clap_lex::is_number", "clap_lex::ext::{split_at,strip_prefix,split_once,find,starts_with}",
]
LEX_FUNCS_C14 = [
    "clap_lex::OsStrExt::{find,contains,starts_with,strip_prefix,split_once,split}", "clap_lex::ext::Split::next",
    "clap_lex::RawArgs::{new,cursor,next_os,peek_os,is_end,seek,remaining,insert}",
]


def H(name, crate, props, tier, bound, funcs, budget_s=900, expect="pass", stubs=None, fail_desc=None, unwind=None, mem_gb=None):
    d = {"name": name, "crate": crate, "props": props, "tier": tier, "bound": bound, "funcs": funcs,
         "budget_s": budget_s, "expect": expect, "stubs": stubs or []}
    if fail_desc:
        d["fail_desc"] = fail_desc
    if mem_gb:
        d["mem_gb"] = mem_gb
    return d


HARNESSES = []


def lex13(name, tier, bound, props=("C13",), **kw):
    HARNESSES.append(H("c13::" + name, "lex", list(props), tier, bound, LEX_FUNCS_C13, **kw))


def lex14(name, tier, bound, props=("C14",), **kw):
    HARNESSES.append(H("c14::" + name, "lex", list(props), tier, bound, LEX_FUNCS_C14, **kw))


ALLB = "all 256 byte values at every position"
for L, tier in [(0, "quick"), (1, "quick"), (2, "quick"), (3, "quick"), (4, "thorough"), (5, "thorough")]:
    lex13(f"classify_{L}", tier, f"argument of exactly {L} bytes, {ALLB}")
for L, tier in [(3, "quick"), (4, "quick"), (5, "thorough"), (6, "thorough")]:
    lex13(f"long_{L}", tier, f"'--' + {L-2} bytes, {ALLB}", props=("C13", "C08"))
for L, tier in [(2, "quick"), (3, "quick"), (4, "thorough"), (5, "thorough")]:
    lex13(f"short_flags_{L}", tier, f"'-' + {L-1} bytes (second byte not '-'), {ALLB}; next_flag to exhaustion", props=("C13", "C08"))
for (L, K), tier in [((2, 0), "quick"), ((2, 1), "quick"), ((3, 0), "quick"), ((3, 1), "quick"), ((3, 2), "quick"),
                     ((4, 0), "thorough"), ((4, 1), "thorough"), ((4, 2), "thorough"), ((4, 3), "thorough"),
                     ((5, 1), "thorough"), ((5, 2), "thorough")]:
    lex13(f"short_value_{L}_{K}", tier, f"'-' + {L-1} bytes, {ALLB}; {K} next_flag calls then next_value_os", props=("C13", "C08"))
for (L, K), tier in [((3, 1), "quick"), ((3, 2), "quick"), ((4, 2), "thorough"), ((4, 3), "thorough")]:
    lex13(f"short_advance_{L}_{K}", tier, f"'-' + {L-1} bytes, {ALLB}; advance_by({K}) vs {K} next calls")
for L, tier in [(1, "quick"), (2, "quick"), (3, "quick"), (4, "thorough"), (5, "thorough")]:
    lex13(f"number_{L}", tier, f"argument of exactly {L} bytes, {ALLB}")
lex13("twin_c13_must_fail", "quick", "vacuity twin", expect="fail")

for (L, N), tier in [((0, 1), "quick"), ((1, 1), "quick"), ((2, 1), "quick"), ((3, 1), "quick"), ((4, 1), "quick"),
                     ((5, 1), "thorough"), ((1, 2), "quick"), ((2, 2), "quick"), ((3, 2), "quick"), ((4, 2), "thorough"),
                     ((5, 2), "thorough"), ((4, 3), "thorough")]:
    props = ("C14", "C08") if N == 1 else ("C14",)
    lex14(f"find_{L}_{N}", tier, f"haystack {L} bytes ({ALLB}), needle {N} bytes (any well-formed UTF-8)", props=props)
for (L, N), tier in [((0, 1), "quick"), ((1, 1), "quick"), ((2, 1), "quick"), ((3, 1), "quick"), ((4, 1), "thorough"),
                     ((2, 2), "quick"), ((3, 2), "thorough"), ((4, 2), "thorough")]:
    lex14(f"split_{L}_{N}", tier, f"haystack {L} bytes ({ALLB}), needle {N} bytes (any well-formed UTF-8); all pieces")
for K, tier in [(1, "quick"), (2, "quick"), (3, "quick"), (4, "thorough"), (5, "thorough")]:
    lex14(f"cursor_{K}", tier, f"3 items, {K} symbolic operations from next/peek/is_end/seek(Start|Current|End), offsets over all of u64/i64")
lex14("cur_step_read_seek", "quick", "arbitrary reachable cursor state (seek(Start(any u64)) + 0..2 next_os) then ONE read/seek op with any offset: inductive step")
lex14("cur_step_remaining", "quick", "arbitrary reachable cursor state then remaining(): inductive step")
lex14("cur_insert_0", "quick", "arbitrary reachable cursor state then an empty insert: inductive step")
for N, tier in ((1, "quick"), (2, "thorough")):
    for P, E in ((0, 0), (1, 0), (2, 0), (3, 0), (3, 1), (3, 2)):
        if N == 2 and P < 3:
            continue  # two items spliced into the middle: CBMC out of memory at 14 GB (measured), outside the claim
        lex14(f"cur_insert_p{P}e{E}_n{N}", tier, f"CONCRETE index state seek(Start({P}))+{E} next_os (the 6 states cover every distinct index of a 3-item list), insert of {N} items, list read back; Vec::splice with a symbolic index exceeds 17 GB")
lex14("twin_c14_must_fail", "quick", "vacuity twin", expect="fail")
lex14("twin_cursor_must_fail", "quick", "vacuity twin", expect="fail")
lex14("twin_split_empty_needle_must_fail", "quick", "split(\"\") panics as documented", expect="fail",
      fail_desc="assertion failed: needle != ")


def for_property(pid, tier):
    out = []
    for h in HARNESSES:
        if pid in h["props"] and (tier == "thorough" or h["tier"] == "quick"):
            out.append(h)
    return out


# ------------------------------------------------------------------ in-crate (clap_builder) harnesses

def bld(mod, name, props, tier, bound, funcs, **kw):
    HARNESSES.append(H(f"verif_harness::{mod}::{name}", "builder", list(props), tier, bound, funcs, **kw))


RANGE_F = ["clap_builder::builder::ValueRange::{new,raw,min_values,max_values,accepts_more,takes_values,is_unbounded,is_fixed,is_multiple,num_values}",
           "From<usize|Range|RangeInclusive|RangeFrom|RangeTo|RangeToInclusive|RangeFull> for ValueRange"]
GROUP_F = ["clap_builder::parser::MatchedArg::{new_group,new_val_group,append_val,push_index,num_vals,num_vals_last_group,vals,raw_vals,vals_flatten,raw_vals_flatten,indices,get_index}",
           "clap_builder::util::AnyValue::{new,downcast_ref}"]
bld("c02", "range_predicates", ["C02"], "quick", "lo <= hi and cur over all of usize", RANGE_F)
bld("c02", "range_from_impls", ["C02"], "quick", "a, b over all of usize, every From<range> impl", RANGE_F)
bld("c02", "twin_c02_range_must_fail", ["C02"], "quick", "vacuity twin", RANGE_F, expect="fail")
bld("c02", "matched_grouping_2", ["C02"], "quick", "2 symbolic ops from {new_val_group, append_val}", GROUP_F)
bld("c02", "matched_grouping_3", ["C02"], "quick", "3 symbolic ops from {new_val_group, append_val}", GROUP_F, budget_s=1800)
bld("c02", "matched_indices", ["C02"], "quick", "0..=3 push_index calls with indices over all of usize", GROUP_F)
bld("c02", "matched_grouping_4", ["C02"], "thorough", "4 symbolic ops from {new_val_group, append_val}", GROUP_F, budget_s=3600)

SRC_F = ["clap_builder::parser::ValueSource::{Ord,max,is_explicit}", "clap_builder::parser::MatchedArg::{set_source,source,check_explicit}"]
bld("c06", "source_order", ["C06", "C03"], "quick", "all pairs of ValueSource", SRC_F)
bld("c06", "presence_explicit", ["C06", "C03"], "quick", "1..=3 symbolic set_source calls", SRC_F)
bld("c06", "twin_c06_must_fail", ["C06", "C03"], "quick", "vacuity twin", SRC_F, expect="fail")

ACT_F = ["clap_builder::builder::ArgAction::{takes_values,default_num_args,default_value,default_missing_value}", "clap_builder::builder::Arg::_build",
         "clap_builder::builder::Arg::{new,long,action,num_args,value_name,value_names,get_action,get_num_args,get_default_values,is_takes_value_set}"]
bld("c07", "action_tables", ["C06", "C07"], "quick", "every ArgAction", ACT_F)
bld("c07", "action_defaults_after_build", ["C06", "C07"], "quick", "every ArgAction, Arg::new(x).long(x).action(a)._build()", ACT_F)
bld("c07", "arg_build_inference", ["C07"], "quick", "positional?, explicit num_args(lo..=hi)? with lo<=hi over all usize, 0/1/2 value names", ACT_F)
bld("c07", "twin_c07_must_fail", ["C06", "C07"], "quick", "vacuity twin", ACT_F, expect="fail")

ERR_F = ["clap_builder::error::Error::{new,set_message,kind,stream,use_stderr,exit_code}"]
bld("c10", "exit_contract", ["C10"], "quick", "every ErrorKind (17 variants, exhaustive match)", ERR_F)
bld("c10", "exit_contract_raw", ["C10"], "quick", "every ErrorKind, error carrying a message", ERR_F)
bld("c10", "twin_c10_must_fail", ["C10"], "quick", "vacuity twin", ERR_F, expect="fail")
