"""Which harnesses decide which property, in which tier.

tier: "quick" harnesses run in both tiers, "thorough" only in the thorough tier.
budget_s: per-harness wall-clock cap (>= 3x the measured time on the unchanged tree).
"""

LEX_FUNCS_C13 = [
    "clap_lex::RawArgs::new/next", "clap_lex::ParsedArg::{is_escape,is_stdio,is_long,is_short,is_empty,"
    "is_negative_number,to_long,to_short,to_value,to_value_os}",
    "clap_lex::ShortFlags::{new,next_flag,next_value_os,advance_by,is_empty,is_negative_number}",
    "clap_lex::split_nonutf8_once", "clap_lex::is_number", "clap_lex::ext::{split_at,strip_prefix,split_once,find,starts_with}",
]
LEX_FUNCS_C14 = [
    "clap_lex::OsStrExt::{find,contains,starts_with,strip_prefix,split_once,split}", "clap_lex::ext::Split::next",
    "clap_lex::RawArgs::{new,cursor,next_os,peek_os,is_end,seek,remaining,insert}",
]


def H(name, crate, props, tier, bound, funcs, budget_s=900, expect="pass", stubs=None, fail_desc=None, unwind=None, mem_gb=None, slots=None):
    d = {"name": name, "crate": crate, "props": props, "tier": tier, "bound": bound, "funcs": funcs,
         "budget_s": budget_s, "expect": expect, "stubs": stubs or []}
    if fail_desc:
        d["fail_desc"] = fail_desc
    if mem_gb:
        d["mem_gb"] = mem_gb
    if slots:
        d["slots"] = slots  # [(nbytes, [candidate ints])] per kani::any() call, in call order: native witness search
    return d


HARNESSES = []


def lex13(name, tier, bound, props=("C13",), **kw):
    HARNESSES.append(H("c13::" + name, "lex", list(props), tier, bound, LEX_FUNCS_C13, **kw))


def lex14(name, tier, bound, props=("C14",), **kw):
    HARNESSES.append(H("c14::" + name, "lex", list(props), tier, bound, LEX_FUNCS_C14, **kw))


ALLB = "all 256 byte values at every position"
for L, tier in [(0, "quick"), (1, "quick"), (2, "quick"), (3, "quick"), (4, "thorough"), (5, "thorough")]:
    lex13(f"classify_{L}", tier, f"argument of exactly {L} bytes, {ALLB}")
for L, tier in [(3, "quick"), (4, "quick"), (5, "thorough"), (6, "thorough")]:
    lex13(f"long_{L}", tier, f"'--' + {L-2} bytes, {ALLB}", props=("C13", "C08"))
for L, tier in [(2, "quick"), (3, "quick"), (4, "thorough"), (5, "thorough")]:
    lex13(f"short_flags_{L}", tier, f"'-' + {L-1} bytes (second byte not '-'), {ALLB}; next_flag to exhaustion", props=("C13", "C08"))
for (L, K), tier in [((2, 0), "quick"), ((2, 1), "quick"), ((3, 0), "quick"), ((3, 1), "quick"), ((3, 2), "quick"),
                     ((4, 0), "thorough"), ((4, 1), "thorough"), ((4, 2), "thorough"), ((4, 3), "thorough"),
                     ((5, 1), "thorough"), ((5, 2), "thorough")]:
    lex13(f"short_value_{L}_{K}", tier, f"'-' + {L-1} bytes, {ALLB}; {K} next_flag calls then next_value_os", props=("C13", "C08"))
for (L, K), tier in [((3, 1), "quick"), ((3, 2), "quick"), ((4, 2), "thorough"), ((4, 3), "thorough")]:
    lex13(f"short_advance_{L}_{K}", tier, f"'-' + {L-1} bytes, {ALLB}; advance_by({K}) vs {K} next calls")
for L, tier in [(1, "quick"), (2, "quick"), (3, "quick"), (4, "thorough"), (5, "thorough")]:
    lex13(f"number_{L}", tier, f"argument of exactly {L} bytes, {ALLB}")
lex13("twin_c13_must_fail", "quick", "vacuity twin", expect="fail")

for (L, N), tier in [((0, 1), "quick"), ((1, 1), "quick"), ((2, 1), "quick"), ((3, 1), "quick"), ((4, 1), "quick"),
                     ((5, 1), "thorough"), ((1, 2), "quick"), ((2, 2), "quick"), ((3, 2), "quick"), ((4, 2), "thorough"),
                     ((5, 2), "thorough"), ((4, 3), "thorough")]:
    props = ("C14", "C08") if N == 1 else ("C14",)
    lex14(f"find_{L}_{N}", tier, f"haystack {L} bytes ({ALLB}), needle {N} bytes (any well-formed UTF-8)", props=props)
for (L, N), tier in [((0, 1), "quick"), ((1, 1), "quick"), ((2, 1), "quick"), ((3, 1), "quick"), ((4, 1), "thorough"),
                     ((2, 2), "quick"), ((3, 2), "thorough"), ((4, 2), "thorough")]:
    lex14(f"split_{L}_{N}", tier, f"haystack {L} bytes ({ALLB}), needle {N} bytes (any well-formed UTF-8); all pieces")
for K, tier in [(1, "quick"), (2, "quick"), (3, "quick"), (4, "thorough"), (5, "thorough")]:
    lex14(f"cursor_{K}", tier, f"3 items, {K} symbolic operations from next/peek/is_end/seek(Start|Current|End), offsets over all of u64/i64")
lex14("cur_step_read_seek", "quick", "arbitrary reachable cursor state (seek(Start(any u64)) + 0..2 next_os) then ONE read/seek op with any offset: inductive step")
lex14("cur_step_remaining", "quick", "arbitrary reachable cursor state then remaining(): inductive step")
lex14("cur_insert_0", "quick", "arbitrary reachable cursor state then an empty insert: inductive step")
for N, tier in ((1, "quick"), (2, "thorough")):
    for P, E in ((0, 0), (1, 0), (2, 0), (3, 0), (3, 1), (3, 2)):
        if N == 2 and P < 3:
            continue  # two items spliced into the middle: CBMC out of memory at 14 GB (measured), outside the claim
        lex14(f"cur_insert_p{P}e{E}_n{N}", tier, f"CONCRETE index state seek(Start({P}))+{E} next_os (the 6 states cover every distinct index of a 3-item list), insert of {N} items, list read back; Vec::splice with a symbolic index exceeds 17 GB")
lex14("twin_c14_must_fail", "quick", "vacuity twin", expect="fail")
lex14("twin_cursor_must_fail", "quick", "vacuity twin", expect="fail")
lex14("twin_split_empty_needle_must_fail", "quick", "split(\"\") panics as documented", expect="fail",
      fail_desc="assertion failed: needle != ")


def for_property(pid, tier):
    out = []
    for h in HARNESSES:
        if pid in h["props"] and (tier == "thorough" or h["tier"] == "quick"):
            out.append(h)
    return out


# ------------------------------------------------------------------ in-crate (clap_builder) harnesses

def bld(mod, name, props, tier, bound, funcs, **kw):
    HARNESSES.append(H(f"verif_harness::{mod}::{name}", "builder", list(props), tier, bound, funcs, **kw))


RANGE_F = ["clap_builder::builder::ValueRange::{new,raw,min_values,max_values,accepts_more,takes_values,is_unbounded,is_fixed,is_multiple,num_values}",
           "From<usize|Range|RangeInclusive|RangeFrom|RangeTo|RangeToInclusive|RangeFull> for ValueRange"]
GROUP_F = ["clap_builder::parser::MatchedArg::{new_group,new_val_group,append_val,push_index,num_vals,num_vals_last_group,vals,raw_vals,vals_flatten,raw_vals_flatten,indices,get_index}",
           "clap_builder::util::AnyValue::{new,downcast_ref}"]
bld("c02", "range_predicates", ["C02"], "quick", "lo <= hi and cur over all of usize", RANGE_F)
bld("c02", "range_from_impls", ["C02"], "quick", "a, b over all of usize, every From<range> impl", RANGE_F)
bld("c02", "twin_c02_range_must_fail", ["C02"], "quick", "vacuity twin", RANGE_F, expect="fail")
bld("c02", "matched_grouping_2", ["C02", "C07"], "quick", "2 symbolic ops from {new_val_group, append_val}", GROUP_F, slots=[(1, [0, 1])] * 2)
bld("c02", "matched_grouping_3", ["C02", "C07"], "thorough", "3 symbolic ops from {new_val_group, append_val}", GROUP_F, budget_s=1800, mem_gb=14, slots=[(1, [0, 1])] * 3)
bld("c02", "matched_indices", ["C02"], "quick", "0..=3 push_index calls with indices over all of usize", GROUP_F)
# matched_grouping_4: out of memory at 20 GB after 260 s (measured in the thorough tier) - not registered, outside the claim

SRC_F = ["clap_builder::parser::ValueSource::{Ord,max,is_explicit}", "clap_builder::parser::MatchedArg::{set_source,source,check_explicit}"]
bld("c06", "source_order", ["C06", "C03"], "quick", "all pairs of ValueSource", SRC_F)
bld("c06", "presence_explicit", ["C06", "C03"], "quick", "1..=3 symbolic set_source calls", SRC_F)
bld("c06", "twin_c06_must_fail", ["C06", "C03"], "quick", "vacuity twin", SRC_F, expect="fail")

ACT_F = ["clap_builder::builder::ArgAction::{takes_values,default_num_args,default_value,default_missing_value}", "clap_builder::builder::Arg::_build",
         "clap_builder::builder::Arg::{new,long,action,num_args,value_name,value_names,get_action,get_num_args,get_default_values,is_takes_value_set}"]
bld("c07", "action_tables", ["C06", "C07"], "quick", "every ArgAction", ACT_F)
bld("c07", "action_defaults_after_build", ["C06", "C07"], "quick", "every ArgAction, Arg::new(x).long(x).action(a)._build()", ACT_F)
bld("c07", "arg_build_inference", ["C07"], "quick", "positional?, explicit num_args(lo..=hi)? with lo<=hi over all usize, 0/1/2 value names", ACT_F)
bld("c07", "twin_c07_must_fail", ["C06", "C07"], "quick", "vacuity twin", ACT_F, expect="fail")

ERR_F = ["clap_builder::error::Error::{new,set_message,kind,stream,use_stderr,exit_code}"]
bld("c10", "exit_contract", ["C10"], "quick", "every ErrorKind (17 variants, exhaustive match)", ERR_F)
bld("c10", "exit_contract_raw", ["C10"], "quick", "every ErrorKind, error carrying a message", ERR_F)
bld("c10", "twin_c10_must_fail", ["C10"], "quick", "vacuity twin", ERR_F, expect="fail")

WRAP_F = ["clap_builder::output::textwrap::core::display_width (+ch_width, unicode off)", "clap_builder::output::textwrap::word_separators::find_words_ascii_space"]
for L, tier in [(1, "quick"), (2, "quick"), (3, "quick"), (4, "quick"), (5, "thorough"), (6, "thorough")]:
    bld("c20", f"display_width_{L}", ["C20"], tier, f"every ASCII string of {L} bytes (all 128 values per byte, incl. ESC/control/'m')", WRAP_F)
for L, tier in [(1, "quick"), (2, "quick"), (3, "quick"), (4, "thorough"), (5, "thorough")]:
    bld("c20", f"find_words_{L}", ["C20"], tier, f"every ASCII string of {L} bytes", WRAP_F, budget_s=1500)
bld("c20", "twin_c20_must_fail", ["C20"], "quick", "vacuity twin", WRAP_F, expect="fail")

# ---- C04
import c04_table  # noqa: E402

RANGED_STUBS_I64 = ["std::fmt::format", "crate::error::Error::with_cmd", "crate::error::Error::value_validation",
                    "crate::builder::value_parser::RangedI64ValueParser::format_bounds"]
RANGED_STUBS_U64 = RANGED_STUBS_I64[:3] + ["crate::builder::value_parser::RangedU64ValueParser::format_bounds"]
RANGED_F = ["clap_builder::builder::RangedI64ValueParser::<T>::{from((Bound,Bound)),parse_ref}", "clap_builder::builder::RangedU64ValueParser::<T>::{from,parse_ref}",
            "core::str::parse::<i64|u64>", "TryFrom<i64|u64> for T", "RangeBounds::contains"]
I64MIN, I64MAX = -(1 << 63), (1 << 63) - 1


def ranged_slots(r):
    n = r["val"] if r["val"] is not None else 0
    bits = int(r["ty"][1:])
    tmin, tmax = (-(1 << (bits - 1)), (1 << (bits - 1)) - 1) if r["ty"][0] == "i" else (0, (1 << bits) - 1)
    if r["parser"] == "i64":
        vals = sorted({v for v in (n - 1, n, n + 1, tmin - 1, tmin, tmax, tmax + 1, 0, -1, 1, I64MIN, I64MAX) if I64MIN <= v <= I64MAX})
    else:
        vals = sorted({v for v in (n - 1, n, n + 1, tmax, 0, 1, (1 << 63) - 1, 1 << 63, (1 << 64) - 1) if 0 <= v < (1 << 64)})
    return [(1, [0, 1, 2]), (8, vals), (1, [0, 1, 2]), (8, vals)]


for r in c04_table.rows():
    HARNESS_SLOTS = ranged_slots(r)
    bld("c04", r["name"], ["C04"], r["tier"],
        f"literal {r['lit']!r} x EVERY range: lo, hi any 64-bit value, start/end bound each Included|Excluded|Unbounded; target type {r['ty']} ({'RangedI64ValueParser' if r['parser']=='i64' else 'RangedU64ValueParser'})",
        RANGED_F, stubs=RANGED_STUBS_I64 if r["parser"] == "i64" else RANGED_STUBS_U64,
        budget_s=1200 if len(r["lit"]) <= 6 else 5400, mem_gb=12, slots=HARNESS_SLOTS)
bld("c04", "twin_c04_ranged_must_fail", ["C04"], "quick", "vacuity twin", RANGED_F, stubs=RANGED_STUBS_I64, expect="fail", budget_s=1200)

def mask_slots(word):
    """one kani::any::<bool>() per ASCII letter of the word (case mask), in order"""
    w = "" if word == "empty" else word
    return [(1, [0, 1]) for ch in w if ch.isalpha()]


BOOL_F = ["clap_builder::util::str_to_bool", "clap_builder::builder::{BoolishValueParser,FalseyValueParser,BoolValueParser}::parse_ref"]
BOOL_STUBS = ["std::fmt::format", "crate::error::Error::with_cmd", "crate::error::Error::value_validation"]
for lit, tier in [("y", "thorough"), ("yes", "thorough"), ("t", "thorough"), ("true", "quick"), ("on", "thorough"), ("1", "thorough"),
                  ("n", "thorough"), ("no", "thorough"), ("f", "thorough"), ("false", "thorough"), ("off", "quick"), ("0", "thorough"),
                  ("empty", "quick"), ("2", "thorough"), ("tru", "quick"), ("yess", "thorough"), ("onn", "thorough"), ("of", "thorough")]:
    bld("c04", f"str_to_bool_{lit}", ["C04"], tier, f"word {lit!r} with a symbolic ASCII case per letter -> util::str_to_bool", BOOL_F,
        stubs=["str::to_lowercase"], budget_s=1500, slots=mask_slots(lit))
for lit, tier in [("yes", "thorough"), ("off", "thorough"), ("tru", "quick"), ("empty", "thorough"), ("0", "thorough")]:
    bld("c04", f"boolish_{lit}", ["C04"], tier, f"word {lit!r} with a symbolic ASCII case per letter -> BoolishValueParser::parse_ref", BOOL_F,
        stubs=BOOL_STUBS + ["str::to_lowercase", "crate::output::usage::Usage::create_usage_with_title"], budget_s=1500, slots=mask_slots(lit))
    bld("c04", f"falsey_{lit}", ["C04"], "thorough", f"word {lit!r} with a symbolic ASCII case per letter -> FalseyValueParser::parse_ref", BOOL_F,
        stubs=["str::to_lowercase", "crate::output::usage::Usage::create_usage_with_title"], budget_s=1500, slots=mask_slots(lit))
for lit, tier in [("true", "quick"), ("false", "thorough"), ("t", "thorough"), ("yes", "thorough"), ("1", "thorough"), ("truee", "thorough")]:
    bld("c04", f"bool_exact_{lit}", ["C04"], tier, f"word {lit!r} with a symbolic ASCII case per letter (BoolValueParser is case-sensitive)", BOOL_F,
        stubs=["std::fmt::format", "crate::error::Error::with_cmd", "crate::error::Error::invalid_value"], budget_s=1500, slots=mask_slots(lit))
PV_F = ["clap_builder::builder::PossibleValue::{new,alias,matches,get_name_and_aliases}", "clap_builder::util::eq_ignore_case (unicode off)"]
for lit, tier in [("fast", "quick"), ("quick", "quick"), ("fas", "quick"), ("fastt", "thorough"), ("quic", "thorough"), ("slow", "thorough")]:
    bld("c04", f"possible_{lit}", ["C04"], tier, f"candidate {lit!r} with a symbolic ASCII case per letter, symbolic ignore_case, against name 'fast' + alias 'quick'", PV_F, slots=[(1, [0, 1])] + mask_slots(lit))
bld("c04", "twin_c04_possible_must_fail", ["C04"], "quick", "vacuity twin", PV_F, expect="fail")

