#!/usr/bin/env python3
"""Entry point: ./check <property-id> [--tier quick|thorough] [--only <harness-substring>] [--jobs N]

exit 0  the property held on everything explored (within the bounds in the evidence file)
exit 1  a counterexample was found AND reproduced natively: prints VIOLATION property=<id> replay=<path>
exit 2  inconclusive (timeout / out of memory / vacuous harness / counterexample that does not reproduce)
"""
import argparse
import concurrent.futures as cf
import json
import os
import sys
import time

sys.path.insert(0, os.path.dirname(os.path.abspath(__file__)))
import kani  # noqa: E402
import registry  # noqa: E402
import replay  # noqa: E402
import findings  # noqa: E402

VERIF = kani.VERIF

ENGINE_B = {"C12"}


def main():
    ap = argparse.ArgumentParser()
    ap.add_argument("pid")
    ap.add_argument("--tier", default=os.environ.get("VERIF_TIER", "quick"))
    ap.add_argument("--only", default=None)
    ap.add_argument("--jobs", type=int, default=None)
    ap.add_argument("--no-evidence", action="store_true")
    ap.add_argument("--no-replay", action="store_true")
    a = ap.parse_args()
    tier = a.tier if a.tier in ("quick", "thorough") else "quick"
    try:
        seed = int(os.environ.get("VERIF_SEED", "0"))
    except ValueError:
        seed = 0
    import mir_check  # noqa: E402
    t0 = time.time()
    parts = []
    if registry.for_property(a.pid, tier):
        parts.append(run_kani(a.pid, tier, seed, a))
    if mir_check.units_for(a.pid) and not a.only:
        parts.append(mir_check.run(a.pid, tier, seed, a))
    if not parts:
        print(f"no check registered for {a.pid}")
        sys.exit(2)
    rc = 1 if any(r == 1 for r, _ in parts) else (2 if any(r == 2 for r, _ in parts) else 0)
    if not a.no_evidence:
        merge_and_write(a.pid, tier, seed, [e for _, e in parts], time.time() - t0)
    sys.exit(rc)


def merge_and_write(pid, tier, seed, evs, wall):
    ev = evs[0]
    for other in evs[1:]:
        c, o = ev["coverage"], other["coverage"]
        c["evaluations"] = c.get("evaluations", 0) + o.get("evaluations", 0)
        c["distinct_nontrivial"] = c.get("distinct_nontrivial", 0) + o.get("distinct_nontrivial", 0)
        c["rule"] = "Engine A (Kani): " + c.get("rule", "") + " || Engine B (mirsmt): " + o.get("rule", "")
        c["samples"] = c.get("samples", []) + o.get("samples", [])
        c["functions_encoded"] = c.get("functions_encoded", []) + [f["function"] if isinstance(f, dict) else f for f in o.get("functions_encoded", [])]
        c["queries_discharged"] = c.get("queries_discharged", 0) + o.get("queries_discharged", 0)
        c["engine_b"] = {k: o[k] for k in ("obligations", "discharged_unsat_both_solvers", "solver_time_s", "mir_dump_cmd", "bounds", "outside_bounds", "engine") if k in o}
        ev["assumptions"] = ev.get("assumptions", []) + other.get("assumptions", [])
        ev["violations"] = ev.get("violations", 0) + other.get("violations", 0)
        for k in ("unrealised_candidates", "inconclusive"):
            if other.get(k):
                ev[k] = ev.get(k, []) + other[k]
    ev["wall_s"] = round(wall, 1)
    os.makedirs(os.path.join(VERIF, "evidence"), exist_ok=True)
    with open(os.path.join(VERIF, "evidence", f"{pid}.json"), "w") as f:
        json.dump(ev, f, indent=1)


def run_kani(pid, tier, seed, a):
    t0 = time.time()
    hs = registry.for_property(pid, tier)
    if a.only:
        hs = [h for h in hs if a.only in h["name"]]
    if not hs:
        print(f"no harness registered for {pid}")
        return 2, {"property_id": pid, "tier": tier, "seed": seed, "level": "model_checking", "coverage": {"evaluations": 0, "distinct_nontrivial": 0, "samples": []}, "wall_s": 0}
    # the seed only rotates scheduling order; no verdict depends on it
    k = seed % len(hs)
    hs = hs[k:] + hs[:k]
    # longest first within the rotation keeps the tail short
    hs.sort(key=lambda h: -h.get("budget_s", 0))
    jobs = a.jobs or int(os.environ.get("VERIF_JOBS", "6" if tier == "quick" else "4"))
    mem = float(os.environ.get("VERIF_MEM_GB", "8" if tier == "quick" else "14"))
    log_dir = os.path.join(kani.SCRATCH, "logs", pid)
    results = []
    with cf.ThreadPoolExecutor(max_workers=jobs) as ex:
        futs = {ex.submit(kani.run_harness, h, tier, log_dir, h.get("mem_gb", mem), h["budget_s"] * (3 if tier == "thorough" else 1)): h for h in hs}
        for fu in cf.as_completed(futs):
            h = futs[fu]
            r = fu.result()
            verdict, why = kani.classify(h, r)
            r["verdict"], r["why"] = verdict, why
            print(f"[{pid}] {r['short']:<36} {verdict:<12} verify={r['verify_s']}s wall={r['wall_s']}s checks={r['n_checks']} {why}", flush=True)
            results.append((h, r))

    known = findings.load()
    violations, inconclusive, known_hits = [], [], []
    # cheapest replays first; once one counterexample is reproduced the remaining failed harnesses
    # are listed but not replayed (a replay can cost more than the verification itself)
    results.sort(key=lambda hr: (0 if hr[0].get("slots") else 1, hr[1].get("verify_s") or 0))
    not_replayed = []
    for h, r in results:
        if r["verdict"] == "inconclusive":
            inconclusive.append((h, r))
        elif r["verdict"] == "violated" and (violations or known_hits) and not a.no_replay:
            not_replayed.append((h, r))
        elif r["verdict"] == "violated":
            if a.no_replay:
                violations.append((h, r, None))
                continue
            rp = replay.replay(pid, h, r)
            r["replay"] = rp
            if rp["reproduced"]:
                kf = findings.match(known, pid, h, r)
                if kf:
                    known_hits.append((h, r, kf))
                else:
                    violations.append((h, r, rp["path"]))
            else:
                r["why"] = "counterexample did not reproduce natively: " + rp.get("note", "")
                inconclusive.append((h, r))

    ev = build_evidence(pid, tier, seed, results, violations, inconclusive, known_hits, time.time() - t0)

    for h, r, kf in known_hits:
        print(f"KNOWN-FINDING: property={pid} {kf['what']}")
    for h, r in not_replayed:
        print(f"  also failed (not replayed, a counterexample is already reproduced): {r['short']}: " + "; ".join(f["desc"][:80] for f in r["failed"][:2]))
    if violations:
        for h, r, path in violations:
            for f in r["failed"][:3]:
                print(f"  failed check in {r['short']}: {f['desc']} @ {f['loc']}")
            print(f"VIOLATION property={pid} replay={path}")
        return 1, ev
    if inconclusive:
        for h, r in inconclusive:
            print(f"INCONCLUSIVE property={pid} harness={r['short']} reason={r['why']} log={r['log']}")
        return 2, ev
    print(f"OK property={pid} tier={tier} engine=kani harnesses={len(results)} wall={time.time()-t0:.0f}s")
    return 0, ev


def build_evidence(pid, tier, seed, results, violations, inconclusive, known_hits, wall):
    holds = [(h, r) for h, r in results if r["verdict"] == "holds"]
    twins = [(h, r) for h, r in results if r["verdict"] == "twin_ok"]
    n_checks = sum(r["n_checks"] for _, r in results)
    repo_ok = sum(r["repo_checks_ok"] for _, r in holds)
    covers_ok = sum(1 for _, r in holds for c in r["covers"] if c["status"] == "SATISFIED")
    samples = []
    for h, r in results:
        samples.append({
            "harness": h["name"], "crate": h["crate"], "verdict": r["verdict"], "bound": h["bound"],
            "stubs": h.get("stubs", []), "stubs_applied": [f"{a} -> {b}" for a, b in r["stubs_applied"]],
            "checks_decided": r["n_checks"], "checks_success": r["n_success"], "checks_unreachable": r["n_unreachable"],
            "checks_in_clap_or_harness_success": r["repo_checks_ok"],
            "covers": [f"{c['desc']}: {c['status']}" for c in r["covers"]],
            "solver_s": r["verify_s"], "wall_s": r["wall_s"], "cmd": r["cmd"],
            **({"why": r["why"]} if r.get("why") else {}),
        })
    funcs = sorted({f for h, _ in results for f in h["funcs"]})
    stubs = sorted({s for h, _ in results for s in h.get("stubs", [])})
    ev = {
        "property_id": pid,
        "tier": tier,
        "seed": seed,
        "level": "model_checking",
        "coverage": {
            "evaluations": n_checks,
            "distinct_nontrivial": repo_ok + covers_ok,
            "rule": "evaluations = CBMC property checks decided over all harness runs (assertions, overflow, pointer and "
                    "unwinding checks of the compiled real code + harness). distinct_nontrivial = checks with status SUCCESS "
                    "(reachable, not UNREACHABLE) located in clap's or the harness' sources, plus kani::cover! points SATISFIED, "
                    "counted only in harnesses that verified with every cover satisfied. Each harness is decided by the "
                    "SAT solver over ALL values of its symbolic inputs inside the stated bound; nothing is sampled.",
            "samples": samples,
            "harnesses_run": len(results),
            "harnesses_verified_nonvacuous": len(holds),
            "vacuity_twins_failed_as_required": len(twins),
            "functions_encoded": funcs,
            "bounds": sorted({h["bound"] for h, _ in results}),
            "queries_discharged": len(holds) + len(twins),
            "solver_time_s": round(sum((r["verify_s"] or 0) for _, r in results), 1),
            "engine": "Kani 0.68.0 / CBMC 6.11.0 (cadical), unwinding assertions on, default memory-safety and overflow checks on",
            "outside_bounds": registry_outside(pid),
            "exhaustive": False,
        },
        "assumptions": [
            "Rust std/core/alloc as compiled by Kani's pinned toolchain are trusted, as are Kani's models of allocation and intrinsics",
            "lengths and sizes are concrete per harness (one harness per length); only contents/configuration are symbolic",
        ] + [f"stub: {s} (cuts message construction after the decision it reports)" for s in stubs],
        "wall_s": round(wall, 1),
        "violations": len(violations),
        "inconclusive": [f"{r['short']}: {r['why']}" for _, r in inconclusive],
        "known_findings_hit": [kf["what"] for _, _, kf in known_hits],
    }
    return ev


def registry_outside(pid):
    return getattr(registry, "OUTSIDE", {}).get(pid, "see DESIGN.md section 2 for this property")


if __name__ == "__main__":
    main()
