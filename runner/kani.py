"""Engine A: run one Kani harness against /repo's working tree and parse the verdict.

A run is "holds" only on VERIFICATION:- SUCCESSFUL with zero failed checks, zero
failed unwinding assertions and every kani::cover! SATISFIED.  Timeouts, OOM and
tool errors are inconclusive, never success.
"""
import os
import re
import shutil
import subprocess
import time

REPO = os.environ.get("VERIF_REPO", "/repo")
VERIF = os.path.dirname(os.path.dirname(os.path.abspath(__file__)))
SCRATCH = os.environ.get("VERIF_SCRATCH", "/var/tmp/clap-verif")

CRATES = {
    # external harness crate over clap_lex's public API (no hook)
    "lex": {"cwd": os.path.join(VERIF, "kani", "lex"), "env": {}, "args": []},
    # in-crate harnesses, included through the clap_verif hook in clap_builder/src/lib.rs
    "builder": {
        "cwd": os.path.join(REPO, "clap_builder"),
        "env": {
            "RUSTFLAGS": "--cfg clap_verif",
            "CLAP_VERIF_DIR": os.path.join(VERIF, "harness"),
        },
        "args": ["--no-default-features", "--features", "std,help,usage,error-context,wrap_help"],
    },
}

CHECK_RE = re.compile(
    r"^Check (\d+): (.+)\n\s+- Status: (\w+)\n\s+- Description: \"((?:.|\n)*?)\"\n(?:\s+- Location: (.*)\n)?(?=\n|Check |\Z)",
    re.M,
)


def base_env():
    env = dict(os.environ)
    env["CARGO_NET_OFFLINE"] = "true"
    env.pop("RUSTFLAGS", None)
    # keep rustc quiet and deterministic
    env["CARGO_TERM_COLOR"] = "never"
    return env


def harness_cmd(crate, harness, target_dir, extra=None, stubbing=False):
    spec = CRATES[crate]
    cmd = ["cargo", "kani"] + spec["args"] + ["--harness", harness, "--exact", "--target-dir", target_dir]
    if stubbing:
        cmd += ["-Z", "stubbing"]
    if extra:
        cmd += extra
    return cmd


def run_harness(h, tier, log_dir, mem_gb, timeout_s):
    """Run harness dict `h`; return a result dict."""
    crate = h["crate"]
    spec = CRATES[crate]
    name = h["name"]
    short = name.split("::")[-1]
    tdir = os.path.join(SCRATCH, "t", f"{crate}-{short}-{os.getpid()}")
    os.makedirs(log_dir, exist_ok=True)
    log = os.path.join(log_dir, f"{short}.log")
    env = base_env()
    env.update(spec["env"])
    cmd = harness_cmd(crate, name, tdir, stubbing=bool(h.get("stubs")))
    shell = "ulimit -v %d; exec timeout -k 10 %d %s" % (
        int(mem_gb * 1024 * 1024),
        int(timeout_s),
        " ".join(subprocess.list2cmdline([c]) for c in cmd),
    )
    t0 = time.time()
    with open(log, "w") as f:
        f.write("# " + shell + "\n")
        f.flush()
        p = subprocess.run(["bash", "-c", shell], cwd=spec["cwd"], env=env, stdout=f, stderr=subprocess.STDOUT)
    wall = time.time() - t0
    shutil.rmtree(tdir, ignore_errors=True)
    out = open(log, errors="replace").read()
    res = parse_output(out)
    res.update({"harness": name, "short": short, "crate": crate, "wall_s": round(wall, 2), "log": log, "rc": p.returncode, "cmd": " ".join(cmd)})
    if p.returncode in (124, 137):
        res["status"] = "timeout"
    return res


def parse_output(out):
    res = {"status": "error", "failed": [], "covers": [], "n_checks": 0, "n_success": 0, "n_unreachable": 0,
           "verify_s": None, "stubs_applied": [], "unwind_failed": [], "repo_checks_ok": 0}
    m = re.search(r"Verification Time: ([0-9.]+)s", out)
    if m:
        res["verify_s"] = float(m.group(1))
    res["stubs_applied"] = [(a.replace(" ", ""), b) for a, b in re.findall(r"- Stub: (.+?) -> (\S+)", out)]
    for m in CHECK_RE.finditer(out):
        _, cname, status, desc, loc = m.groups()
        res["n_checks"] += 1
        is_cover = ".cover." in cname or cname.endswith(".cover")
        if is_cover:
            res["covers"].append({"desc": desc, "status": status, "check": cname})
            continue
        if status == "SUCCESS":
            res["n_success"] += 1
            if loc and ("/repo/" in loc or "repo/clap" in loc or "src/c1" in loc or "harness/" in loc):
                res["repo_checks_ok"] += 1
        elif status == "UNREACHABLE":
            res["n_unreachable"] += 1
        elif status in ("FAILURE", "UNDETERMINED"):
            item = {"check": cname, "status": status, "desc": desc, "loc": (loc or "").strip()}
            if desc.startswith("unwinding assertion"):
                res["unwind_failed"].append(item)
            else:
                res["failed"].append(item)
    m = re.search(r"\*\* (\d+) of (\d+) failed", out)
    res["summary_failed"], res["summary_total"] = (int(m.group(1)), int(m.group(2))) if m else (None, None)
    n_noncover = res["n_checks"] - len(res["covers"])
    if m and (res["summary_total"] != n_noncover or res["summary_failed"] != len(res["failed"]) + len(res["unwind_failed"])):
        # the parser and Kani's own summary disagree: never trust such a run
        res["status"] = "error"
        res["parse_mismatch"] = f"parsed {n_noncover} checks / {len(res['failed']) + len(res['unwind_failed'])} failed, summary says {res['summary_total']} / {res['summary_failed']}"
        return res
    if "VERIFICATION:- SUCCESSFUL" in out:
        res["status"] = "success"
    elif "VERIFICATION:- FAILED" in out:
        res["status"] = "failed"
        if re.search(r"Status: ERROR|CBMC failed|out of memory|std::bad_alloc|SAT checker ran out of memory", out):
            res["status"] = "error"
    elif re.search(r"std::bad_alloc|out of memory|memory exhausted", out, re.I):
        res["status"] = "oom"
    elif "error: could not compile" in out or "error[E" in out:
        res["status"] = "compile_error"
    return res


def classify(h, r):
    """Map a raw result to one of: holds, twin_ok, violated, inconclusive(reason)."""
    expect = h.get("expect", "pass")
    st = r["status"]
    if st in ("timeout", "oom", "error", "compile_error"):
        return ("inconclusive", st)
    want_stubs = h.get("stubs", [])
    applied = {a.split("::")[-1] for a, _ in r["stubs_applied"]}
    for s in want_stubs:
        if s.split("::")[-1] not in applied:
            return ("inconclusive", f"stub {s} not applied")
    if expect == "fail":
        needle = h.get("fail_desc", "twin: reachable end of harness")
        if st == "failed" and any(needle in f["desc"] for f in r["failed"]) and not r["unwind_failed"]:
            return ("twin_ok", "")
        return ("inconclusive", f"vacuity twin did not fail as expected (status {st})")
    if st == "success":
        if r["unwind_failed"]:
            return ("inconclusive", "unwinding assertion failed")
        bad = [c for c in r["covers"] if c["status"] != "SATISFIED"]
        if bad:
            return ("inconclusive", "cover not satisfied: " + "; ".join(c["desc"] for c in bad))
        return ("holds", "")
    if st == "failed":
        if r["failed"]:
            return ("violated", "")
        if r["unwind_failed"]:
            return ("inconclusive", "unwinding assertion failed (bound too small for this tree)")
        return ("inconclusive", "FAILED without a failed check")
    return ("inconclusive", st)
