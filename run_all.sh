#!/bin/bash
# Run every claimed check of a tier, two at a time; summary at the end.  usage: ./run_all.sh [quick|thorough] [ids...]
cd "$(dirname "$(readlink -f "$0")")"
tier=${1:-quick}; shift
ids=${@:-$(python3 -c "import json;print(' '.join(c['property_id'] for c in json.load(open('MANIFEST.json'))['checks']))")}
mkdir -p /var/tmp/clap-verif/runall
printf '%s\n' $ids | xargs -P 2 -I{} bash -c "./check {} --tier $tier > /var/tmp/clap-verif/runall/{}.$tier.log 2>&1; echo {} exit=\$?"
