#!/bin/bash
# Confirm a seeded change in a scratch worktree: usage: seed_confirm.sh <worktree> <seed dir> <demo dest (relative to worktree)> <cargo test args for the demo...>
# 1. demo passes on the clean tree  2. patch applies, demo fails  3. full workspace suite (without the demo) passes with the patch
set -u
wt=$1; seed=$2; dest=$3; shift 3
export CARGO_NET_OFFLINE=true CARGO_TARGET_DIR=$wt/target
cd $wt || exit 9
git checkout -q -- . && git clean -fdq -e 'SEED*' -e target
mkdir -p $(dirname $dest); cp $seed/demo.rs $dest
echo "--- demo on clean tree"; cargo test --offline "$@" 2>&1 | grep -E "^test result|error(\[|:)" | sort | uniq -c
git apply $seed/patch.diff || { echo "PATCH DOES NOT APPLY"; exit 1; }
echo "--- demo with patch"; cargo test --offline "$@" 2>&1 | grep -E "^test result|error(\[|:)" | sort | uniq -c
rm -f $dest
echo "--- workspace suite with patch"; cargo test --workspace --no-fail-fast --offline 2>&1 | grep -E "^test result" | grep -v " 0 failed" ; echo "(lines above = suites with failures; none = all pass)"
git checkout -q -- . && git clean -fdq -e 'SEED*' -e target
