#!/bin/bash
# Offline setup: nothing to download.  Checks compile what they need from /repo's working tree
# on every run; this only verifies that the tools are present.
set -e
cd "$(dirname "$(readlink -f "$0")")"
export CARGO_NET_OFFLINE=true
command -v cargo >/dev/null
cargo kani --version >/dev/null 2>&1 || { echo "cargo kani missing"; exit 1; }
command -v z3 >/dev/null || { echo "z3 missing"; exit 1; }
command -v cvc5 >/dev/null || { echo "cvc5 missing"; exit 1; }
cargo +nightly --version >/dev/null 2>&1 || { echo "nightly toolchain (MIR dumps) missing"; exit 1; }
python3 -c "import json" 
mkdir -p evidence replays
echo "setup ok"
