//! Reference definitions (oracles).  None of them calls clap_lex.

/// Length of the UTF-8 sequence starting at `b[i]` if a well-formed one starts there
/// (Unicode 15 table 3-7), else 0.
pub fn seq_len_at(b: &[u8], i: usize) -> usize {
    let n = b.len();
    if i >= n {
        return 0;
    }
    let b0 = b[i];
    let cont = |k: usize| -> bool { i + k < n && b[i + k] >= 0x80 && b[i + k] <= 0xBF };
    if b0 <= 0x7F {
        1
    } else if b0 >= 0xC2 && b0 <= 0xDF {
        if cont(1) {
            2
        } else {
            0
        }
    } else if b0 >= 0xE0 && b0 <= 0xEF {
        if !(cont(1) && cont(2)) {
            return 0;
        }
        let b1 = b[i + 1];
        if b0 == 0xE0 && b1 < 0xA0 {
            return 0;
        }
        if b0 == 0xED && b1 > 0x9F {
            return 0;
        }
        3
    } else if b0 >= 0xF0 && b0 <= 0xF4 {
        if !(cont(1) && cont(2) && cont(3)) {
            return 0;
        }
        let b1 = b[i + 1];
        if b0 == 0xF0 && b1 < 0x90 {
            return 0;
        }
        if b0 == 0xF4 && b1 > 0x8F {
            return 0;
        }
        4
    } else {
        0
    }
}

/// Length of the longest prefix of `b` that is well-formed UTF-8.
pub fn valid_prefix_len(b: &[u8]) -> usize {
    let mut i = 0;
    while i < b.len() {
        let k = seq_len_at(b, i);
        if k == 0 {
            break;
        }
        i += k;
    }
    i
}

pub fn is_utf8(b: &[u8]) -> bool {
    valid_prefix_len(b) == b.len()
}

/// Documented shape of `is_number` (clap_lex lib.rs): digits are always fine; one
/// `.`, not first, before any exponent; one `e`/`E`, not first, not last.
/// (The empty string is vacuously "all digits".)
pub fn number_shape(b: &[u8]) -> bool {
    // state: 0 = before dot/exp, 1 = after dot, 2 = after exp
    let mut state = 0u8;
    let mut i = 0;
    let mut e_at_end = false;
    while i < b.len() {
        let c = b[i];
        e_at_end = false;
        if c >= b'0' && c <= b'9' {
        } else if c == b'.' {
            if state != 0 || i == 0 {
                return false;
            }
            state = 1;
        } else if c == b'e' || c == b'E' {
            if state == 2 || i == 0 {
                return false;
            }
            state = 2;
            e_at_end = true;
        } else {
            return false;
        }
        i += 1;
    }
    !e_at_end
}

/// First index `i` with `hay[i..i+n] == needle` (needle non-empty).
pub fn naive_find(hay: &[u8], needle: &[u8]) -> Option<usize> {
    let n = needle.len();
    if n == 0 || n > hay.len() {
        return None;
    }
    let mut i = 0;
    while i + n <= hay.len() {
        let mut j = 0;
        let mut ok = true;
        while j < n {
            if hay[i + j] != needle[j] {
                ok = false;
            }
            j += 1;
        }
        if ok {
            return Some(i);
        }
        i += 1;
    }
    None
}

/// Same, but starting the search at `from`.
pub fn naive_find_from(hay: &[u8], from: usize, needle: &[u8]) -> Option<usize> {
    let n = needle.len();
    let mut i = from;
    while n > 0 && i + n <= hay.len() {
        let mut j = 0;
        let mut ok = true;
        while j < n {
            if hay[i + j] != needle[j] {
                ok = false;
            }
            j += 1;
        }
        if ok {
            return Some(i);
        }
        i += 1;
    }
    None
}

pub fn bytes_eq(a: &[u8], b: &[u8]) -> bool {
    if a.len() != b.len() {
        return false;
    }
    let mut i = 0;
    let mut ok = true;
    while i < a.len() {
        if a[i] != b[i] {
            ok = false;
        }
        i += 1;
    }
    ok
}

#[cfg(test)]
mod tests {
    use super::*;

    // The oracle is itself checked against std on all strings of <= 2 bytes and a
    // stride of 3/4-byte strings: it must agree with std::str::from_utf8.
    #[test]
    fn utf8_oracle_agrees_with_std() {
        for a in 0..=255u8 {
            assert_eq!(is_utf8(&[a]), std::str::from_utf8(&[a]).is_ok());
            for b in 0..=255u8 {
                let s = [a, b];
                assert_eq!(is_utf8(&s), std::str::from_utf8(&s).is_ok(), "{s:?}");
                let exp = match std::str::from_utf8(&s) {
                    Ok(_) => 2,
                    Err(e) => e.valid_up_to(),
                };
                assert_eq!(valid_prefix_len(&s), exp);
                for c in (0..=255u8).step_by(3) {
                    let s = [a, b, c];
                    let exp = match std::str::from_utf8(&s) {
                        Ok(_) => 3,
                        Err(e) => e.valid_up_to(),
                    };
                    assert_eq!(valid_prefix_len(&s), exp, "{s:?}");
                }
            }
        }
        for a in 0xE0..=0xF7u8 {
            for b in (0x70..=0xC8u8).step_by(1) {
                for c in [0x7f, 0x80, 0xbf, 0xc0] {
                    for d in [0x7f, 0x80, 0xbf, 0xc0, b'a'] {
                        let s = [a, b, c, d];
                        let exp = match std::str::from_utf8(&s) {
                            Ok(_) => 4,
                            Err(e) => e.valid_up_to(),
                        };
                        assert_eq!(valid_prefix_len(&s), exp, "{s:?}");
                    }
                }
            }
        }
    }

    #[test]
    fn number_oracle_examples() {
        for (s, e) in [
            ("", true),
            ("1", true),
            ("1.", true),
            ("1.2", true),
            (".1", false),
            ("1e", false),
            ("1e1", true),
            ("1E1", true),
            ("e1", false),
            ("1.2.3", false),
            ("1e2.3", false),
            ("1e2e3", false),
            ("1.e2", true),
            ("-1", false),
            ("1a", false),
        ] {
            assert_eq!(number_shape(s.as_bytes()), e, "{s}");
        }
    }
}
