//! C14 harnesses: OsStrExt helpers vs naive byte search; RawArgs cursor vs index model.
use crate::oracle::*;
use clap_lex::{OsStrExt as _, RawArgs, SeekFrom};
use std::ffi::{OsStr, OsString};
use std::os::unix::ffi::OsStringExt;

fn needle_of<const N: usize>(nd: &[u8; N]) -> &str {
    // precondition (assumed by every caller): `nd` is well-formed UTF-8 by the oracle
    unsafe { std::str::from_utf8_unchecked(nd) }
}

// ---------------------------------------------------------------- find & friends

fn find<const L: usize, const N: usize>() {
    let h: [u8; L] = kani::any();
    let nd: [u8; N] = kani::any();
    kani::assume(is_utf8(&nd));
    let hs = OsString::from_vec(h.to_vec());
    let hs: &OsStr = hs.as_os_str();
    let needle = needle_of(&nd);
    let exp = naive_find(&h, &nd);

    assert!(hs.find(needle) == exp);
    assert!(hs.contains(needle) == exp.is_some());
    let exp_prefix = exp == Some(0);
    assert!(hs.starts_with(needle) == exp_prefix);
    match hs.strip_prefix(needle) {
        Some(rest) => {
            assert!(exp_prefix);
            assert!(bytes_eq(rest.as_encoded_bytes(), &h[N..]));
        }
        None => assert!(!exp_prefix),
    }
    match hs.split_once(needle) {
        Some((a, b)) => {
            let i = exp.unwrap();
            assert!(bytes_eq(a.as_encoded_bytes(), &h[..i]));
            assert!(bytes_eq(b.as_encoded_bytes(), &h[i + N..]));
        }
        None => assert!(exp.is_none()),
    }
    kani::cover!(exp.is_none(), "not found");
    kani::cover!(L < N || exp == Some(0), "found at start (L >= N)");
    kani::cover!(L <= N || exp == Some(L - N), "found at end (L > N)");
    kani::cover!(L == 0 || !is_utf8(&h), "non-utf8 haystack");
}

/// `split` piece by piece against the oracle's cut points.
fn split<const L: usize, const N: usize>() {
    let h: [u8; L] = kani::any();
    let nd: [u8; N] = kani::any();
    kani::assume(is_utf8(&nd));
    let hs = OsString::from_vec(h.to_vec());
    let hs: &OsStr = hs.as_os_str();
    let needle = needle_of(&nd);
    let mut it = hs.split(needle);
    let mut from = 0usize;
    let mut finished = false;
    let mut pieces = 0usize;
    let mut i = 0;
    // at most L/N + 1 pieces, then None
    while i < L + 2 {
        let got = it.next();
        if finished {
            assert!(got.is_none());
        } else {
            let piece = got.unwrap();
            pieces += 1;
            match naive_find_from(&h, from, &nd) {
                Some(j) => {
                    assert!(bytes_eq(piece.as_encoded_bytes(), &h[from..j]));
                    from = j + N;
                }
                None => {
                    assert!(bytes_eq(piece.as_encoded_bytes(), &h[from..]));
                    finished = true;
                }
            }
        }
        i += 1;
    }
    assert!(finished);
    assert!(pieces >= 1 && pieces <= L / N + 1);
    kani::cover!(pieces == 1, "no separator");
    kani::cover!(L < N || pieces == L / N + 1, "only separators");
    kani::cover!(L < N + 1 || pieces == 2, "one separator");
}

macro_rules! inst {
    ($name:ident, $unwind:expr, $f:ident, $($g:tt)*) => {
        #[kani::proof]
        #[kani::unwind($unwind)]
        fn $name() {
            $f::<$($g)*>()
        }
    };
}

inst!(find_0_1, 4, find, 0, 1);
inst!(find_1_1, 4, find, 1, 1);
inst!(find_2_1, 5, find, 2, 1);
inst!(find_3_1, 6, find, 3, 1);
inst!(find_4_1, 7, find, 4, 1);
inst!(find_5_1, 8, find, 5, 1);
inst!(find_1_2, 5, find, 1, 2);
inst!(find_2_2, 5, find, 2, 2);
inst!(find_3_2, 6, find, 3, 2);
inst!(find_4_2, 7, find, 4, 2);
inst!(find_5_2, 8, find, 5, 2);
inst!(find_4_3, 7, find, 4, 3);

inst!(split_0_1, 4, split, 0, 1);
inst!(split_1_1, 5, split, 1, 1);
inst!(split_2_1, 6, split, 2, 1);
inst!(split_3_1, 7, split, 3, 1);
inst!(split_4_1, 8, split, 4, 1);
inst!(split_2_2, 6, split, 2, 2);
inst!(split_3_2, 7, split, 3, 2);
inst!(split_4_2, 8, split, 4, 2);

/// `split("")` panics as documented: this harness must come back FAILED.
#[kani::proof]
#[kani::unwind(5)]
fn twin_split_empty_needle_must_fail() {
    let h: [u8; 2] = kani::any();
    let hs = OsString::from_vec(h.to_vec());
    let _ = hs.as_os_str().split("").next();
}

/// Vacuity twin for the find family.
#[kani::proof]
#[kani::unwind(6)]
fn twin_c14_must_fail() {
    let h: [u8; 3] = kani::any();
    let hs = OsString::from_vec(h.to_vec());
    let r = hs.as_os_str().split_once("=");
    kani::assume(r.is_some());
    assert!(false, "twin: reachable end of harness");
}

// ---------------------------------------------------------------- cursor
//
// The cursor's whole state is (items, index).  Every reachable state is produced by
// `seek(Start(p))` (index = min(p, len)) followed by some `next_os` calls (index may then
// exceed len: next_os keeps counting).  So "arbitrary reachable state + ONE operation,
// compared with the index model" is the inductive step for histories of any length
// (harnesses `cur_*`); `cursor_K` additionally runs K symbolic seek/read operations
// in sequence as a direct check of short histories.

/// Index model: item identities are their byte lengths (all items distinct).
struct Model {
    items: [u8; 6],
    len: usize,
    pos: usize,
}

impl Model {
    fn get(&self, i: usize) -> Option<u8> {
        if i < self.len {
            Some(self.items[i])
        } else {
            None
        }
    }
    fn at(&self) -> usize {
        if self.pos < self.len {
            self.pos
        } else {
            self.len
        }
    }
    fn insert(&mut self, at: usize, id: u8) {
        let mut i = self.len;
        while i > at {
            self.items[i] = self.items[i - 1];
            i -= 1;
        }
        self.items[at] = id;
        self.len += 1;
    }
}

fn id_of(o: Option<&OsStr>) -> Option<u8> {
    o.map(|s| s.len() as u8)
}

fn clamp_i128(x: i128, len: usize) -> usize {
    // mathematically: max(0, x) then min(len); i64 saturation cannot matter because len is tiny
    if x < 0 {
        0
    } else if x > len as i128 {
        len
    } else {
        x as usize
    }
}

const ITEMS: [&str; 3] = ["", "a", "bb"];

fn fresh() -> (RawArgs, clap_lex::ArgCursor, Model) {
    let raw = RawArgs::new(ITEMS);
    let c = raw.cursor();
    let m = Model {
        items: [0, 1, 2, 0, 0, 0],
        len: 3,
        pos: 0,
    };
    (raw, c, m)
}

/// Arbitrary reachable pre-state: seek(Start(p)) then 0..=2 next_os calls.
fn arbitrary_state(raw: &RawArgs, c: &mut clap_lex::ArgCursor, m: &mut Model) {
    let p: u64 = kani::any();
    raw.seek(c, SeekFrom::Start(p));
    m.pos = clamp_i128(p as i128, m.len);
    let extra: u8 = kani::any();
    kani::assume(extra <= 2);
    if extra >= 1 {
        let got = id_of(raw.next_os(c));
        assert!(got == m.get(m.pos));
        m.pos += 1;
    }
    if extra >= 2 {
        let got = id_of(raw.next_os(c));
        assert!(got == m.get(m.pos));
        m.pos += 1;
    }
}

/// Observe the cursor through the API: what is under it, and (by stepping back one) whether
/// it sits at `len` or beyond it.
fn observe(raw: &RawArgs, c: &mut clap_lex::ArgCursor, m: &mut Model) {
    assert!(raw.is_end(c) == (m.pos >= m.len));
    assert!(id_of(raw.peek_os(c)) == m.get(m.pos));
    raw.seek(c, SeekFrom::Current(-1));
    m.pos = clamp_i128(m.pos as i128 - 1, m.len);
    assert!(id_of(raw.peek_os(c)) == m.get(m.pos));
}

fn read_or_seek(op: u8, raw: &RawArgs, c: &mut clap_lex::ArgCursor, m: &mut Model) {
    match op {
        0 => {
            let got = id_of(raw.next_os(c));
            assert!(got == m.get(m.pos));
            m.pos = if m.pos == usize::MAX { m.pos } else { m.pos + 1 };
        }
        1 => {
            let got = id_of(raw.peek_os(c));
            assert!(got == m.get(m.pos));
        }
        2 => {
            assert!(raw.is_end(c) == (m.pos >= m.len));
        }
        3 => {
            let p: u64 = kani::any();
            raw.seek(c, SeekFrom::Start(p));
            m.pos = clamp_i128(p as i128, m.len);
            assert!(m.pos <= m.len);
        }
        4 => {
            let d: i64 = kani::any();
            raw.seek(c, SeekFrom::Current(d));
            m.pos = clamp_i128(m.pos as i128 + d as i128, m.len);
        }
        _ => {
            let d: i64 = kani::any();
            raw.seek(c, SeekFrom::End(d));
            m.pos = clamp_i128(m.len as i128 + d as i128, m.len);
        }
    }
}

/// K symbolic read/seek operations from the initial state, in lock-step with the model.
fn cursor<const K: usize>() {
    let (raw, mut c, mut m) = fresh();
    let mut k = 0;
    while k < K {
        let op: u8 = kani::any();
        kani::assume(op < 6);
        read_or_seek(op, &raw, &mut c, &mut m);
        assert!(raw.is_end(&c) == (m.pos >= m.len));
        assert!(id_of(raw.peek_os(&c)) == m.get(m.pos));
        k += 1;
    }
    observe(&raw, &mut c, &mut m);
    kani::cover!(m.pos == 2, "cursor inside the list");
    kani::cover!(m.pos == 0, "cursor at start");
}

/// One read/seek operation from an arbitrary reachable state (incl. index beyond the end).
#[kani::proof]
#[kani::unwind(8)]
fn cur_step_read_seek() {
    let (raw, mut c, mut m) = fresh();
    arbitrary_state(&raw, &mut c, &mut m);
    let past = m.pos > m.len;
    let op: u8 = kani::any();
    kani::assume(op < 6);
    read_or_seek(op, &raw, &mut c, &mut m);
    observe(&raw, &mut c, &mut m);
    kani::cover!(past && op == 4, "relative seek from beyond the end");
    kani::cover!(past && op == 0, "next beyond the end");
    kani::cover!(op == 5, "seek from end");
}

/// `remaining` from an arbitrary reachable state yields exactly the items from the index on
/// (none when the index is at or beyond the end) and leaves the cursor at the end.
#[kani::proof]
#[kani::unwind(8)]
fn cur_step_remaining() {
    let (raw, mut c, mut m) = fresh();
    arbitrary_state(&raw, &mut c, &mut m);
    let past = m.pos > m.len;
    let start = m.at();
    let mut n = 0usize;
    for s in raw.remaining(&mut c) {
        assert!(Some(s.len() as u8) == m.get(start + n));
        n += 1;
    }
    assert!(n == m.len - start);
    m.pos = m.len;
    observe(&raw, &mut c, &mut m);
    kani::cover!(past, "remaining with the index beyond the end");
    kani::cover!(n == 3, "remaining from the start");
    kani::cover!(n == 0 && !past, "remaining at the end");
}

/// `insert` of N items: the new items appear at the index (appended when the index is at or
/// beyond the end), in order; the cursor does not move.
///
/// `Vec::splice` with a symbolic index or symbolic item contents exhausts 17-24 GB, so the
/// pre-state is concrete here: P = seek(Start(P)), E = number of next_os calls after it.  The
/// six harness states (0,0) (1,0) (2,0) (3,0) (3,1) (3,2) are ALL index states that differ
/// for a 3-item list (index 0..=3 and beyond the end); only N = 0 runs from a symbolic state.
fn cur_insert<const P: u64, const E: usize, const N: usize>() {
    let (mut raw, mut c, mut m) = fresh();
    raw.seek(&mut c, SeekFrom::Start(P));
    m.pos = clamp_i128(P as i128, m.len);
    let mut e = 0;
    while e < E {
        let got = id_of(raw.next_os(&mut c));
        assert!(got == m.get(m.pos));
        m.pos += 1;
        e += 1;
    }
    let at = m.at();
    if N == 1 {
        raw.insert(&c, ["ccc"]);
        m.insert(at, 3);
    } else {
        raw.insert(&c, ["ccc", "dddd"]);
        m.insert(at, 3);
        m.insert(at + 1, 4);
    }
    // the cursor did not move: it now addresses the first inserted item, unless it is past the end
    if m.pos <= 3 {
        assert!(id_of(raw.peek_os(&c)) == Some(3));
    }
    raw.seek(&mut c, SeekFrom::Start(0));
    let mut i = 0;
    while i < 3 + N {
        assert!(id_of(raw.next_os(&mut c)) == m.get(i));
        i += 1;
    }
    assert!(raw.next_os(&mut c).is_none());
    kani::cover!(true, "reached the end of the harness");
}

/// Empty insert from an arbitrary reachable (symbolic) state: nothing changes, nothing panics.
#[kani::proof]
#[kani::unwind(8)]
fn cur_insert_0() {
    let (mut raw, mut c, mut m) = fresh();
    arbitrary_state(&raw, &mut c, &mut m);
    let past = m.pos > m.len;
    raw.insert(&c, [] as [&str; 0]);
    observe(&raw, &mut c, &mut m);
    raw.seek(&mut c, SeekFrom::Start(0));
    let mut i = 0;
    while i < 3 {
        assert!(id_of(raw.next_os(&mut c)) == m.get(i));
        i += 1;
    }
    assert!(raw.next_os(&mut c).is_none());
    kani::cover!(past, "insert with the index beyond the end");
}

inst!(cursor_1, 8, cursor, 1);
inst!(cursor_2, 8, cursor, 2);
inst!(cursor_3, 8, cursor, 3);
inst!(cursor_4, 8, cursor, 4);
inst!(cursor_5, 8, cursor, 5);
inst!(cur_insert_p0e0_n1, 8, cur_insert, 0, 0, 1);
inst!(cur_insert_p1e0_n1, 8, cur_insert, 1, 0, 1);
inst!(cur_insert_p2e0_n1, 8, cur_insert, 2, 0, 1);
inst!(cur_insert_p3e0_n1, 8, cur_insert, 3, 0, 1);
inst!(cur_insert_p3e1_n1, 8, cur_insert, 3, 1, 1);
inst!(cur_insert_p3e2_n1, 8, cur_insert, 3, 2, 1);
inst!(cur_insert_p3e0_n2, 8, cur_insert, 3, 0, 2);
inst!(cur_insert_p3e1_n2, 8, cur_insert, 3, 1, 2);
inst!(cur_insert_p3e2_n2, 8, cur_insert, 3, 2, 2);

#[kani::proof]
#[kani::unwind(8)]
fn twin_cursor_must_fail() {
    let (raw, mut c, mut m) = fresh();
    arbitrary_state(&raw, &mut c, &mut m);
    let op: u8 = kani::any();
    kani::assume(op < 6);
    read_or_seek(op, &raw, &mut c, &mut m);
    observe(&raw, &mut c, &mut m);
    assert!(false, "twin: reachable end of harness");
}

