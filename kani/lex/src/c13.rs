//! C13 harnesses.  Every argument goes through the real `RawArgs::new([..]).next(..)`.
use crate::oracle::*;
use clap_lex::RawArgs;
use std::ffi::OsString;
use std::os::unix::ffi::OsStringExt;

fn raw_of<const L: usize>(b: &[u8; L]) -> RawArgs {
    RawArgs::new([OsString::from_vec(b.to_vec())])
}

// ---------------------------------------------------------------- classification

fn classify<const L: usize>() {
    let b: [u8; L] = kani::any();
    let raw = raw_of(&b);
    let mut c = raw.cursor();
    let a = raw.next(&mut c).unwrap();

    let st_dash = L >= 1 && b[0] == b'-';
    let st_dd = L >= 2 && b[0] == b'-' && b[1] == b'-';
    let exp_escape = L == 2 && st_dd;
    let exp_stdio = L == 1 && st_dash;
    let exp_long = st_dd && L > 2;
    let exp_short = st_dash && L > 1 && b[1] != b'-';

    assert!(a.is_escape() == exp_escape);
    assert!(a.is_stdio() == exp_stdio);
    assert!(a.is_long() == exp_long);
    assert!(a.to_long().is_some() == exp_long);
    assert!(a.is_short() == exp_short);
    assert!(a.to_short().is_some() == exp_short);
    assert!(a.is_empty() == (L == 0));

    // mutually exclusive classes
    let n = a.is_escape() as u8 + a.is_stdio() as u8 + a.is_long() as u8 + a.is_short() as u8;
    assert!(n <= 1);
    // a plain value (does not start with '-') is in none of the classes
    if !st_dash {
        assert!(n == 0);
        assert!(!a.is_negative_number());
    }

    // value views
    let utf8 = is_utf8(&b);
    match a.to_value() {
        Ok(s) => {
            assert!(utf8);
            assert!(bytes_eq(s.as_bytes(), &b));
        }
        Err(os) => {
            assert!(!utf8);
            assert!(bytes_eq(os.as_encoded_bytes(), &b));
        }
    }
    assert!(bytes_eq(a.to_value_os().as_encoded_bytes(), &b));

    kani::cover!(L != 2 || exp_escape, "escape (L=2)");
    kani::cover!(L != 1 || exp_stdio, "stdio (L=1)");
    kani::cover!(L <= 2 || exp_long, "long (L>2)");
    kani::cover!(L <= 1 || exp_short, "short (L>1)");
    kani::cover!(L == 0 || !st_dash, "plain value");
    kani::cover!(L == 0 || !utf8, "non-utf8");
}

// ---------------------------------------------------------------- long

fn long<const L: usize>() {
    let b: [u8; L] = kani::any();
    kani::assume(L > 2 && b[0] == b'-' && b[1] == b'-');
    let raw = raw_of(&b);
    let mut c = raw.cursor();
    let a = raw.next(&mut c).unwrap();
    let (flag, value) = a.to_long().unwrap();
    let rest = &b[2..];
    let eq = naive_find(rest, b"=");
    let flag_bytes = match flag {
        Ok(s) => s.as_bytes(),
        Err(os) => os.as_encoded_bytes(),
    };
    match eq {
        Some(i) => {
            // split at the FIRST '='
            assert!(bytes_eq(flag_bytes, &rest[..i]));
            let v = value.unwrap();
            assert!(bytes_eq(v.as_encoded_bytes(), &rest[i + 1..]));
            // re-assembly: "--" + flag + "=" + value has the original length
            assert!(2 + flag_bytes.len() + 1 + v.len() == L);
        }
        None => {
            assert!(value.is_none());
            assert!(bytes_eq(flag_bytes, rest));
        }
    }
    // the flag part never contains '='
    assert!(naive_find(flag_bytes, b"=").is_none());
    // Ok iff the flag bytes are UTF-8
    assert!(flag.is_ok() == is_utf8(flag_bytes));

    kani::cover!(eq.is_some() && flag.is_ok(), "name=value");
    kani::cover!(eq.is_none(), "no value");
    kani::cover!(flag.is_err(), "non-utf8 flag");
    kani::cover!(eq == Some(0), "empty name");
}

// ---------------------------------------------------------------- short clusters

/// Walk `next_flag` to exhaustion.
fn short_flags<const L: usize>() {
    let b: [u8; L] = kani::any();
    kani::assume(L > 1 && b[0] == b'-' && b[1] != b'-');
    let raw = raw_of(&b);
    let mut c = raw.cursor();
    let a = raw.next(&mut c).unwrap();
    let mut s = a.to_short().unwrap();
    let rest = &b[1..];
    let vp = valid_prefix_len(rest);
    let mut pos = 0usize;
    let mut saw_err = false;
    let mut done = false;
    let mut i = 0;
    // at most L-1 chars + 1 Err + 1 None
    while i < L + 1 {
        match s.next_flag() {
            Some(Ok(ch)) => {
                assert!(!saw_err && !done);
                let mut buf = [0u8; 4];
                let enc = ch.encode_utf8(&mut buf).as_bytes();
                assert!(pos + enc.len() <= vp);
                assert!(bytes_eq(enc, &rest[pos..pos + enc.len()]));
                pos += enc.len();
            }
            Some(Err(os)) => {
                assert!(!saw_err && !done);
                saw_err = true;
                // the tail starts exactly where the valid prefix ends and is never empty
                assert!(pos == vp);
                assert!(vp < rest.len());
                assert!(bytes_eq(os.as_encoded_bytes(), &rest[vp..]));
                pos = rest.len();
            }
            None => {
                assert!(pos == rest.len());
                assert!(s.is_empty());
                done = true;
            }
        }
        i += 1;
    }
    assert!(done);
    kani::cover!(saw_err, "non-utf8 tail");
    kani::cover!(!saw_err, "all utf8");
    kani::cover!(L < 3 || (saw_err && vp > 0), "flags then tail (L>=3)");
}

/// After K successful `next_flag` calls, `next_value_os` is exactly the unread bytes.
fn short_value<const L: usize, const K: usize>() {
    let b: [u8; L] = kani::any();
    kani::assume(L > 1 && b[0] == b'-' && b[1] != b'-');
    let raw = raw_of(&b);
    let mut c = raw.cursor();
    let a = raw.next(&mut c).unwrap();
    let mut s = a.to_short().unwrap();
    let rest = &b[1..];
    let mut pos = 0usize;
    let mut k = 0;
    while k < K {
        match s.next_flag() {
            Some(Ok(ch)) => pos += ch.len_utf8(),
            _ => kani::assume(false),
        }
        k += 1;
    }
    let was_empty = s.is_empty();
    assert!(was_empty == (pos == rest.len()));
    match s.next_value_os() {
        Some(v) => {
            assert!(pos < rest.len());
            assert!(bytes_eq(v.as_encoded_bytes(), &rest[pos..]));
        }
        None => assert!(pos == rest.len()),
    }
    // consumed: nothing is left afterwards
    assert!(s.is_empty());
    assert!(s.next_flag().is_none());
    assert!(s.next_value_os().is_none());
    kani::cover!(L < K + 2 || (pos < rest.len() && is_utf8(rest)), "utf8 remainder (when one can exist)");
    kani::cover!(L < K + 2 || (pos < rest.len() && !is_utf8(rest)), "remainder with non-utf8 (when one can exist)");
    kani::cover!(K == 0 || L < K + 2 || pos > K, "multi-byte flag (when it fits)");
}

/// `advance_by(K)` behaves like K `next` calls.
fn short_advance<const L: usize, const K: usize>() {
    let b: [u8; L] = kani::any();
    kani::assume(L > 1 && b[0] == b'-' && b[1] != b'-');
    let raw = raw_of(&b);
    let mut c = raw.cursor();
    let a = raw.next(&mut c).unwrap();
    let mut s1 = a.to_short().unwrap();
    let mut s2 = a.to_short().unwrap();
    let r = s1.advance_by(K);
    let mut ok_steps = 0usize;
    let mut k = 0;
    let mut failed = false;
    while k < K {
        if !failed {
            match s2.next() {
                Some(Ok(_)) => ok_steps += 1,
                _ => failed = true,
            }
        }
        k += 1;
    }
    match r {
        Ok(()) => assert!(!failed && ok_steps == K),
        Err(i) => assert!(failed && i == ok_steps),
    }
    // both iterators are in the same state
    let v1 = s1.next_value_os();
    let v2 = s2.next_value_os();
    match (v1, v2) {
        (Some(x), Some(y)) => assert!(bytes_eq(x.as_encoded_bytes(), y.as_encoded_bytes())),
        (None, None) => {}
        _ => assert!(false),
    }
    kani::cover!(r.is_ok(), "advanced");
    kani::cover!(r.is_err(), "ran out");
}

// ---------------------------------------------------------------- numbers

fn number<const L: usize>() {
    let b: [u8; L] = kani::any();
    let raw = raw_of(&b);
    let mut c = raw.cursor();
    let a = raw.next(&mut c).unwrap();
    let exp = L >= 1 && b[0] == b'-' && number_shape(&b[1..]);
    assert!(a.is_negative_number() == exp);
    if let Some(s) = a.to_short() {
        // both recognisers agree on anything that is a short cluster
        assert!(s.is_negative_number() == exp);
    }
    kani::cover!(exp, "negative number");
    kani::cover!(L < 2 || (!exp && b[0] == b'-'), "dash but not a number (L>=2)");
    kani::cover!(L < 3 || (exp && naive_find(&b, b".").is_some()), "float (L>=3)");
}

// ---------------------------------------------------------------- instances

macro_rules! inst {
    ($name:ident, $unwind:expr, $f:ident, $($g:tt)*) => {
        #[kani::proof]
        #[kani::unwind($unwind)]
        fn $name() {
            $f::<$($g)*>()
        }
    };
}

inst!(classify_0, 4, classify, 0);
inst!(classify_1, 4, classify, 1);
inst!(classify_2, 5, classify, 2);
inst!(classify_3, 6, classify, 3);
inst!(classify_4, 7, classify, 4);
inst!(classify_5, 8, classify, 5);

inst!(long_3, 6, long, 3);
inst!(long_4, 7, long, 4);
inst!(long_5, 8, long, 5);
inst!(long_6, 9, long, 6);

inst!(short_flags_2, 5, short_flags, 2);
inst!(short_flags_3, 6, short_flags, 3);
inst!(short_flags_4, 7, short_flags, 4);
inst!(short_flags_5, 8, short_flags, 5);

inst!(short_value_2_0, 5, short_value, 2, 0);
inst!(short_value_2_1, 5, short_value, 2, 1);
inst!(short_value_3_0, 6, short_value, 3, 0);
inst!(short_value_3_1, 6, short_value, 3, 1);
inst!(short_value_3_2, 6, short_value, 3, 2);
inst!(short_value_4_0, 7, short_value, 4, 0);
inst!(short_value_4_1, 7, short_value, 4, 1);
inst!(short_value_4_2, 7, short_value, 4, 2);
inst!(short_value_4_3, 7, short_value, 4, 3);
inst!(short_value_5_1, 8, short_value, 5, 1);
inst!(short_value_5_2, 8, short_value, 5, 2);

inst!(short_advance_3_1, 6, short_advance, 3, 1);
inst!(short_advance_3_2, 6, short_advance, 3, 2);
inst!(short_advance_4_2, 7, short_advance, 4, 2);
inst!(short_advance_4_3, 7, short_advance, 4, 3);

inst!(number_1, 4, number, 1);
inst!(number_2, 5, number, 2);
inst!(number_3, 6, number, 3);
inst!(number_4, 7, number, 4);
inst!(number_5, 8, number, 5);

/// Vacuity twin: must come back FAILED.
#[kani::proof]
#[kani::unwind(6)]
fn twin_c13_must_fail() {
    let b: [u8; 3] = kani::any();
    kani::assume(b[0] == b'-' && b[1] == b'-');
    let raw = raw_of(&b);
    let mut c = raw.cursor();
    let a = raw.next(&mut c).unwrap();
    let _ = a.to_long().unwrap();
    assert!(false, "twin: reachable end of harness");
}
