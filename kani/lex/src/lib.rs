//! Kani harnesses over the real `clap_lex` crate (path dependency on /repo/clap_lex).
//! C13: lexing is a lossless, consistent decomposition.
//! C14: OsStr helpers and the RawArgs cursor behave like their simple models.
//! C08 (lexer-level half) re-uses `long_*`, `short_*` and `strip_eq_*`.
//!
//! Conventions (DESIGN.md 1.2): lengths are concrete (const generic L), contents are
//! unconstrained `kani::any()` bytes; oracles are straight-line byte code written
//! here and never call the function under test.
#![allow(clippy::all)]
#![allow(dead_code)]

pub mod oracle;

#[cfg(kani)]
mod c13;
#[cfg(kani)]
mod c14;
