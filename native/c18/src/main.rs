//! Native realisation family for C18 (Engine B): the dynamic completion engine never panics.
//! A small set of command shapes x argument vectors (including dash-looking values, `--`, unknown
//! flags, pending options) x every cursor index, through the public `clap_complete::engine::complete`.
//! Prints `C18-REPLAY PANIC case=<..> msg=<..>` for every case that panics.
use clap::{Arg, ArgAction, Command};
use std::ffi::OsString;

fn commands() -> Vec<(&'static str, fn() -> Command)> {
    vec![
        ("opt + hyphen positional", || {
            Command::new("p")
                .arg(Arg::new("opt").long("opt").short('o').action(ArgAction::Set))
                .arg(Arg::new("flag").long("flag").short('f').action(ArgAction::SetTrue))
                .arg(Arg::new("pos").index(1).allow_hyphen_values(true).num_args(1..))
        }),
        ("opt + plain positional + sub", || {
            Command::new("p")
                .arg(Arg::new("opt").long("opt").short('o').action(ArgAction::Set).num_args(1..=2))
                .arg(Arg::new("pos").index(1))
                .subcommand(Command::new("sub").arg(Arg::new("x").long("x").action(ArgAction::Set)))
        }),
        ("hyphen option", || {
            Command::new("p")
                .arg(Arg::new("opt").long("opt").short('o').action(ArgAction::Set).allow_hyphen_values(true))
                .arg(Arg::new("pos").index(1).num_args(0..))
        }),
    ]
}

fn main() {
    let toks = ["--opt", "-o", "--unknown", "-u", "--", "v", "--flag", "sub", "", "--opt=v", "-ov"];
    std::panic::set_hook(Box::new(|_| {}));
    let mut n = 0usize;
    for (cname, mk) in commands() {
        for a in 0..toks.len() {
            for b in 0..toks.len() {
                for c in [0usize, 5, 8] {
                    let args: Vec<OsString> = ["p", toks[a], toks[b], toks[c]].iter().map(OsString::from).collect();
                    for idx in 1..args.len() {
                        n += 1;
                        let a2 = args.clone();
                        let r = std::panic::catch_unwind(move || {
                            let mut cmd = mk();
                            let _ = clap_complete::engine::complete(&mut cmd, a2, idx, None);
                        });
                        if let Err(e) = r {
                            let msg = e.downcast_ref::<String>().cloned().or_else(|| e.downcast_ref::<&str>().map(|s| s.to_string())).unwrap_or_default();
                            println!("C18-REPLAY PANIC case={cname}: complete({args:?}, index {idx}) msg={}", msg.replace('\n', " ").chars().take(120).collect::<String>());
                        }
                    }
                }
            }
        }
    }
    println!("C18-REPLAY DONE {n} cases");
}
