//! Native realisation family for C18 (Engine B): the dynamic completion engine never panics.
//! A small set of command shapes x argument vectors (including dash-looking values, `--`, unknown
//! flags, pending options) x every cursor index, through the public `clap_complete::engine::complete`.
//! Prints `C18-REPLAY PANIC case=<..> msg=<..>` for every case that panics.
use clap::{Arg, ArgAction, Command};
use std::ffi::OsString;

fn commands() -> Vec<(&'static str, fn() -> Command)> {
    vec![
        ("opt + hyphen positional", || {
            Command::new("p")
                .arg(Arg::new("opt").long("opt").short('o').action(ArgAction::Set))
                .arg(Arg::new("flag").long("flag").short('f').action(ArgAction::SetTrue))
                .arg(Arg::new("pos").index(1).allow_hyphen_values(true).num_args(1..))
        }),
        ("opt + plain positional + sub", || {
            Command::new("p")
                .arg(Arg::new("opt").long("opt").short('o').action(ArgAction::Set).num_args(1..=2))
                .arg(Arg::new("pos").index(1))
                .subcommand(Command::new("sub").arg(Arg::new("x").long("x").action(ArgAction::Set)))
        }),
        ("hyphen option", || {
            Command::new("p")
                .arg(Arg::new("opt").long("opt").short('o').action(ArgAction::Set).allow_hyphen_values(true))
                .arg(Arg::new("pos").index(1).num_args(0..))
        }),
    ]
}

fn main() {
    let toks = ["--opt", "-o", "--unknown", "-u", "--", "v", "--flag", "sub", "", "--opt=v", "-ov"];
    std::panic::set_hook(Box::new(|_| {}));
    let mut n = 0usize;
    for (cname, mk) in commands() {
        for a in 0..toks.len() {
            for b in 0..toks.len() {
                for c in [0usize, 5, 8] {
                    let args: Vec<OsString> = ["p", toks[a], toks[b], toks[c]].iter().map(OsString::from).collect();
                    for idx in 1..args.len() {
                        n += 1;
                        let a2 = args.clone();
                        let r = std::panic::catch_unwind(move || {
                            let mut cmd = mk();
                            let _ = clap_complete::engine::complete(&mut cmd, a2, idx, None);
                        });
                        if let Err(e) = r {
                            let msg = e.downcast_ref::<String>().cloned().or_else(|| e.downcast_ref::<&str>().map(|s| s.to_string())).unwrap_or_default();
                            println!("C18-REPLAY PANIC case={cname}: complete({args:?}, index {idx}) msg={}", msg.replace('\n', " ").chars().take(120).collect::<String>());
                        }
                    }
                }
            }
        }
    }
    // candidate lists: hidden spellings never shadow visible ones; the level reached follows hidden aliases
    let cli = || {
        Command::new("prog")
            .disable_help_subcommand(true)
            .subcommand(Command::new("build").alias("b").arg(Arg::new("release").long("release").action(ArgAction::SetTrue)))
            .subcommand(Command::new("install").alias("i").visible_alias("inst"))
            .subcommand(Command::new("remove").alias("rm"))
            .subcommand(Command::new("bench"))
            .arg(Arg::new("verbose").long("verbose").alias("vv").action(ArgAction::SetTrue))
    };
    let comp = |words: &[&str]| -> Result<Vec<String>, String> {
        let args: Vec<OsString> = std::iter::once("prog").chain(words.iter().copied()).map(OsString::from).collect();
        let idx = args.len() - 1;
        std::panic::catch_unwind(move || {
            let mut cmd = cli();
            let mut v: Vec<String> = clap_complete::engine::complete(&mut cmd, args, idx, None)
                .map(|c| c.into_iter().map(|c| c.get_value().to_string_lossy().into_owned()).collect())
                .unwrap_or_default();
            v.sort();
            v
        })
        .map_err(|_| "panic".to_string())
    };
    let subs = |v: Vec<String>| -> Vec<String> { v.into_iter().filter(|s| !s.starts_with('-')).collect() };
    // (name, visible aliases, hidden aliases) of the root level, mirrored from `cli` above
    let table: [(&str, &[&str], &[&str]); 4] = [("build", &[], &["b"]), ("install", &["inst"], &["i"]), ("remove", &[], &["rm"]), ("bench", &[], &[])];
    for w in ["", "b", "i", "in", "inst", "insta", "r", "rm", "be", "x"] {
        n += 1;
        let got = match comp(&[w]) {
            Ok(v) => subs(v),
            Err(_) => { println!("C18-REPLAY MISMATCH case=subcommand candidates for {w:?}: panic"); continue; }
        };
        let visible: Vec<&str> = table.iter().filter(|(name, vis, _)| name.starts_with(w) || vis.iter().any(|a| a.starts_with(w))).map(|t| t.0).collect();
        let spell_of = |cand: &str, hidden_ok: bool| table.iter().find(|(name, vis, hid)| *name == cand || vis.contains(&cand) || (hidden_ok && hid.contains(&cand))).map(|t| t.0);
        if !visible.is_empty() {
            // every candidate is a VISIBLE spelling extending w; every visible subcommand is represented
            let bad: Vec<&String> = got.iter().filter(|c| !c.starts_with(w) || spell_of(c.as_str(), false).is_none()).collect();
            let missing: Vec<&&str> = visible.iter().filter(|name| !got.iter().any(|c| spell_of(c.as_str(), false) == Some(**name))).collect();
            if !bad.is_empty() || !missing.is_empty() {
                println!("C18-REPLAY MISMATCH case=subcommand candidates for {w:?}: got {got:?}; not a visible spelling: {bad:?}; visible subcommands not represented: {missing:?}");
            }
        } else {
            let hidden: Vec<&str> = table.iter().flat_map(|(_, _, hid)| hid.iter().copied()).filter(|a| a.starts_with(w)).collect();
            let mut g2 = got.clone();
            g2.sort();
            let mut h2: Vec<String> = hidden.iter().map(|s| s.to_string()).collect();
            h2.sort();
            if g2 != h2 {
                println!("C18-REPLAY MISMATCH case=subcommand candidates for {w:?} (nothing visible matches): got {got:?}, expected the hidden aliases {h2:?}");
            }
        }
    }
    for (words, want) in [
        (vec!["--v"], vec!["--verbose"]),
        (vec!["--vv"], vec!["--vv"]),
        (vec!["build", "--r"], vec!["--release"]),
        (vec!["b", "--r"], vec!["--release"]),
        (vec!["inst", "--r"], vec![]),
    ] {
        n += 1;
        match comp(&words) {
            Ok(v) if v == want => {}
            other => println!("C18-REPLAY MISMATCH case=option candidates for {words:?}: got {other:?}, expected {want:?}"),
        }
    }
    // after `--opt=value` / `-ovalue` the option is complete: the next word starts a new argument
    let cli2 = || {
        Command::new("prog")
            .arg(Arg::new("format").long("format").short('f').action(ArgAction::Set).value_parser(["json", "yaml"]))
            .arg(Arg::new("verbose").long("verbose").action(ArgAction::SetTrue))
    };
    let comp2 = |words: &[&str]| -> Result<Vec<String>, String> {
        let args: Vec<OsString> = std::iter::once("prog").chain(words.iter().copied()).map(OsString::from).collect();
        let idx = args.len() - 1;
        std::panic::catch_unwind(move || {
            let mut cmd = cli2();
            let mut v: Vec<String> = clap_complete::engine::complete(&mut cmd, args, idx, None)
                .map(|c| c.into_iter().map(|c| c.get_value().to_string_lossy().into_owned()).collect())
                .unwrap_or_default();
            v.sort();
            v
        })
        .map_err(|_| "panic".to_string())
    };
    for (words, want) in [
        (vec!["--format=json", "--v"], vec!["--verbose"]),
        (vec!["-fjson", "--v"], vec!["--verbose"]),
        (vec!["--format", "json", "--v"], vec!["--verbose"]),
        (vec!["--format", "j"], vec!["json"]),
        (vec!["-f", "y"], vec!["yaml"]),
    ] {
        n += 1;
        match comp2(&words) {
            Ok(v) if v == want => {}
            other => println!("C18-REPLAY MISMATCH case=candidates after a completed / pending option {words:?}: got {other:?}, expected {want:?}"),
        }
    }
    // the level reached follows the parser: a word that is an option's value, a further value of a multi-value
    // positional, or comes after `--` is not a subcommand
    let cli3 = || {
        Command::new("prog")
            .arg(Arg::new("opt").long("opt").action(ArgAction::Set))
            .arg(Arg::new("verbose").long("verbose").action(ArgAction::SetTrue))
            .arg(Arg::new("files").num_args(1..))
            .subcommand(Command::new("build").arg(Arg::new("release").long("release").action(ArgAction::SetTrue)))
    };
    for (words, want) in [
        (vec!["--opt", "build", "--v"], vec!["--verbose"]),
        (vec!["--opt", "build", "--r"], vec![]),
        (vec!["x", "build", "--r"], vec![]),
        (vec!["build", "--r"], vec!["--release"]),
        (vec!["--verbose", "build", "--r"], vec!["--release"]),
    ] {
        n += 1;
        let args: Vec<OsString> = std::iter::once("prog").chain(words.iter().copied()).map(OsString::from).collect();
        let idx = args.len() - 1;
        let got = std::panic::catch_unwind(move || {
            let mut cmd = cli3();
            let mut v: Vec<String> = clap_complete::engine::complete(&mut cmd, args, idx, None)
                .map(|c| c.into_iter().map(|c| c.get_value().to_string_lossy().into_owned()).collect())
                .unwrap_or_default();
            v.sort();
            v
        });
        match got {
            Ok(v) if v == want => {}
            other => println!("C18-REPLAY MISMATCH case=level reached by {words:?}: candidates {:?}, expected {want:?}", other.ok()),
        }
    }
    // an option named through a HIDDEN alias awaits its value like any other spelling
    let cli4 = || {
        Command::new("prog")
            .arg(Arg::new("format").long("format").short('f').alias("fmt").short_alias('F').visible_alias("form").action(ArgAction::Set).value_parser(["json", "yaml"]))
            .arg(Arg::new("verbose").long("verbose").action(ArgAction::SetTrue))
    };
    for words in [vec!["--format", ""], vec!["--form", ""], vec!["--fmt", ""], vec!["-f", ""], vec!["-F", ""]] {
        n += 1;
        let args: Vec<OsString> = std::iter::once("prog").chain(words.iter().copied()).map(OsString::from).collect();
        let idx = args.len() - 1;
        let got = std::panic::catch_unwind(move || {
            let mut cmd = cli4();
            let mut v: Vec<String> = clap_complete::engine::complete(&mut cmd, args, idx, None)
                .map(|c| c.into_iter().map(|c| c.get_value().to_string_lossy().into_owned()).collect())
                .unwrap_or_default();
            v.sort();
            v
        });
        match got {
            Ok(v) if v == ["json", "yaml"] => {}
            other => println!("C18-REPLAY MISMATCH case=value candidates after {words:?}: {:?}, expected the option's values [json, yaml]", other.ok()),
        }
    }
    // the shell adapters (public trait methods) with every small argument vector, incl. the empty one (nothing after `--`)
    {
        use clap_complete::env::EnvCompleter;
        let shells: Vec<(&str, Box<dyn Fn() -> Box<dyn EnvCompleter>>)> = vec![
            ("bash", Box::new(|| Box::new(clap_complete::env::Bash))),
            ("elvish", Box::new(|| Box::new(clap_complete::env::Elvish))),
            ("fish", Box::new(|| Box::new(clap_complete::env::Fish))),
            ("powershell", Box::new(|| Box::new(clap_complete::env::Powershell))),
            ("zsh", Box::new(|| Box::new(clap_complete::env::Zsh))),
        ];
        for (name, mk) in &shells {
            for argv in [vec![], vec!["prog"], vec!["prog", ""], vec!["prog", "--v"]] {
                n += 1;
                let sh = mk();
                let a: Vec<OsString> = argv.iter().map(OsString::from).collect();
                let r = std::panic::catch_unwind(std::panic::AssertUnwindSafe(move || {
                    let mut cmd = cli3();
                    let mut buf = Vec::new();
                    let _ = sh.write_complete(&mut cmd, a, None, &mut buf);
                }));
                if let Err(e) = r {
                    let msg = e.downcast_ref::<String>().cloned().or_else(|| e.downcast_ref::<&str>().map(|s| s.to_string())).unwrap_or_default();
                    println!("C18-REPLAY PANIC case=shell adapter {name}::write_complete({argv:?}) msg={}", msg.chars().take(100).collect::<String>());
                }
            }
        }
    }
    println!("C18-REPLAY DONE {n} cases");
}
