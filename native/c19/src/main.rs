//! Native realisation family for C19 (Engine B): man pages name every non-hidden option,
//! positional and subcommand, omit hidden ones, and carry the sections their guards select.
//! Prints `C19-REPLAY MISMATCH case=<..>` for every deviation.
use clap::{Arg, ArgAction, Command};

fn page(cmd: Command) -> String {
    let mut buf = Vec::new();
    clap_mangen::Man::new(cmd).render(&mut buf).expect("render");
    String::from_utf8_lossy(&buf).into_owned()
}

fn main() {
    let mut n = 0;
    for bits in 0..32u8 {
        let (h_opt, h_pos, h_sub, ver, author) = (bits & 1 != 0, bits & 2 != 0, bits & 4 != 0, bits & 8 != 0, bits & 16 != 0);
        let mut cmd = Command::new("prog")
            .arg(Arg::new("zzopt").long("zzopt").action(ArgAction::Set).help("opt help").hide(h_opt))
            .arg(Arg::new("zzpos").index(1).help("pos help").hide(h_pos))
            .arg(Arg::new("other").long("other").action(ArgAction::SetTrue))
            .subcommand(Command::new("zzsub").about("sub about").hide(h_sub))
            .subcommand(Command::new("othersub"));
        if ver {
            cmd = cmd.version("9.9.9");
        }
        if author {
            cmd = cmd.author("Zz Author");
        }
        let p = page(cmd);
        n += 1;
        let checks = [
            ("--zzopt listed iff not hidden", p.contains("zzopt") == !h_opt),
            ("positional listed iff not hidden", (p.contains("zzpos") || p.contains("ZZPOS")) == !h_pos),
            ("subcommand listed iff not hidden", p.contains("zzsub") == !h_sub),
            ("VERSION section iff a version is set", p.contains(".SH VERSION") == ver),
            ("AUTHORS section iff an author is set", p.contains(".SH AUTHORS") == author),
            ("visible items still listed", p.contains("other") && p.contains("othersub")),
        ];
        for (what, ok) in checks {
            if !ok {
                println!("C19-REPLAY MISMATCH case=hide_opt={h_opt} hide_pos={h_pos} hide_sub={h_sub} version={ver} author={author}: {what}");
            }
        }
    }
    // sections selected by the has-arguments / has-subcommands predicates
    let p = page(Command::new("bare").disable_help_flag(true).disable_help_subcommand(true));
    if p.contains(".SH OPTIONS") || p.contains(".SH SUBCOMMANDS") {
        println!("C19-REPLAY MISMATCH case=command without arguments or subcommands: OPTIONS/SUBCOMMANDS section present");
    }
    let p = page(Command::new("cmdx").disable_help_flag(true).arg(Arg::new("h").long("zzsecret").hide(true).action(ArgAction::SetTrue)));
    if p.contains(".SH OPTIONS") || p.contains("zzsecret") {
        println!("C19-REPLAY MISMATCH case=command whose only argument is hidden: OPTIONS section or the hidden flag present");
    }
    // a hidden option that shares a help heading with a visible one is still omitted
    for heading in [false, true] {
        let mut hid = Arg::new("h").long("zzsecret").hide(true).action(ArgAction::SetTrue).help("zzsecret help");
        let mut vis = Arg::new("v").long("zzshown").action(ArgAction::SetTrue).help("shown help");
        if heading {
            hid = hid.help_heading("Tuning");
            vis = vis.help_heading("Tuning");
        }
        let p = page(Command::new("cmdh").arg(hid).arg(vis));
        if p.contains("zzsecret") || !p.contains("zzshown") {
            println!("C19-REPLAY MISMATCH case=hidden option {} a visible one: hidden listed={}, visible listed={}", if heading { "sharing a help heading with" } else { "next to" }, p.contains("zzsecret"), p.contains("zzshown"));
        }
    }
    // the public per-section renderers never panic, whatever the command declares
    let mut extra = 0;
    for (ver, long) in [(false, false), (true, false), (false, true), (true, true)] {
        let mk = move || {
            let mut c = Command::new("vcmd");
            if ver {
                c = c.version("1.2.3");
            }
            if long {
                c = c.long_version("1.2.3-long");
            }
            c
        };
        extra += 1;
        let r = std::panic::catch_unwind(move || {
            let man = clap_mangen::Man::new(mk());
            let mut buf = Vec::new();
            man.render_version_section(&mut buf).expect("io");
            let mut all = Vec::new();
            man.render(&mut all).expect("io");
            (String::from_utf8_lossy(&buf).into_owned(), String::from_utf8_lossy(&all).into_owned())
        });
        match r {
            Err(_) => println!("C19-REPLAY PANIC case=version={ver} long_version={long}: Man::render_version_section / Man::render panicked"),
            Ok((sec, all)) => {
                // (roff escapes `-` as `\-`, so compare the pieces around it)
                let ok = if long {
                    sec.contains("1.2.3") && sec.contains("long") && all.contains("long")
                } else if ver {
                    sec.contains("1.2.3") && all.contains("1.2.3") && !all.contains("long")
                } else {
                    !all.contains(".SH VERSION") && !sec.contains(".SH VERSION")
                };
                if !ok {
                    println!("C19-REPLAY MISMATCH case=version={ver} long_version={long}: version section {:?}", sec);
                }
            }
        }
    }
    // user text with a line break never produces a line that starts a roff request
    let evil = "X\n.so /etc/passwd";
    let cases: Vec<(&str, Command)> = vec![
        ("help_heading", Command::new("p").arg(Arg::new("o").long("o").action(ArgAction::SetTrue).help_heading(evil))),
        ("subcommand_help_heading", Command::new("p").subcommand_help_heading(evil).subcommand(Command::new("s"))),
        ("version", Command::new("p").version(evil)),
        ("long_version", Command::new("p").long_version(evil)),
        ("about", Command::new("p").about(evil)),
        ("help", Command::new("p").arg(Arg::new("o").long("o").action(ArgAction::SetTrue).help(evil))),
        ("author", Command::new("p").author(evil)),
        ("after_help", Command::new("p").after_help(evil)),
        ("value_name", Command::new("p").arg(Arg::new("o").long("o").action(ArgAction::Set).value_name(evil))),
        ("subcommand about", Command::new("p").subcommand(Command::new("s").about(evil))),
    ];
    for (what, cmd) in cases {
        extra += 1;
        let p = page(cmd);
        let bad: Vec<&str> = p.lines().filter(|l| l.to_lowercase().starts_with(".so")).collect();
        if !bad.is_empty() {
            println!("C19-REPLAY MISMATCH case=line break in {what}: the page contains request line(s) made of user text: {bad:?}");
        }
    }
    println!("C19-REPLAY DONE {} cases", n + 4 + extra);
}
